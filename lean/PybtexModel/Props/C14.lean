/-
C14 — cross-referenced fields are inherited, own fields win, lookup always terminates.

Property theorems only.  Model of the (repaired) code: `Model/Crossref.lean` — `findField` is a
total function, its recursion is well-founded on the number of database keys not yet followed —
on the database model of `Model/Db.lean`; reference lookup: `Spec/Citations.lean` (`walk`,
`lookup`); helper lemmas: `Lemmas/Crossref.lean`.  `DbWF` / `EntryWF` are the decidable
well-formedness predicates of `Lemmas/Citations.lean` (every database the reader builds
satisfies them: `C05_reader_wf`).
-/
import PybtexModel.Lemmas.Crossref

namespace Pybtex.Props
open Pybtex Spec

namespace C14Ex
/-- string literal as model string -/
def s (x : String) : Str := x.toList

def entry (fields : List (String × String)) (persons : List (String × List String)) : Entry :=
  { key := [], type := s "misc",
    fields := CIDict.ofPairs (fields.map fun p => (s p.1, s p.2)),
    persons := CIDict.ofPairs (persons.map fun p => (s p.1, p.2.map s)) }

def dbOf (file : List (Str × Entry)) : BibData :=
  match BibData.readFile none file with
  | some (db, _) => db
  | none => BibData.init none

/-- decidable equality of `Except` results, for the concrete witnesses -/
instance decEqExcept {ε α : Type} [DecidableEq ε] [DecidableEq α] : DecidableEq (Except ε α)
  | .ok a, .ok b => if h : a = b then isTrue (by rw [h]) else isFalse (fun h' => by cases h'; exact h rfl)
  | .error a, .error b =>
    if h : a = b then isTrue (by rw [h]) else isFalse (fun h' => by cases h'; exact h rfl)
  | .ok _, .error _ => isFalse (fun h => by cases h)
  | .error _, .ok _ => isFalse (fun h => by cases h)

def get (db : BibData) (k : String) : Entry :=
  match db.entries.getItem (s k) with
  | some e => e
  | none => entry [] []

/-- child → Parent → grand (three levels, mixed-case references), `self` → itself, `m1` ⇄ `m2`,
`dang` → nowhere -/
def db : BibData := dbOf [
  (s "child", entry [("title", "T"), ("crossref", "PARENT")] []),
  (s "Parent", entry [("Note", "pn"), ("crossref", "grand")] [("editor", ["E, One", "E, Two"])]),
  (s "grand", entry [("note", "gn"), ("year", "1984")] [("author", ["G, A"])]),
  (s "self", entry [("crossref", "SELF"), ("note", "sn")] []),
  (s "m1", entry [("crossref", "m2")] []),
  (s "m2", entry [("crossref", "M1"), ("year", "2001")] []),
  (s "dang", entry [("crossref", "nowhere")] [])]
end C14Ex
open C14Ex

/-- [model wiring]  A field the entry defines itself always wins — whatever the database, whatever
has been followed before, whatever the parents say.  This is one unfolding of `findField` (its first
test is `e.fields.getItem name`); the independent statement of "own first" is
`C14_inherits_nearest` (the reference `SEntry.own` asks the entry's field, then its role, before
any parent). -/
theorem C14_own_field_wins (bibData : Option BibData) (visited : List Str) (e : Entry) (name : Str) (v : Str)
    (h : e.fields.getItem name = some v) : findField bibData visited e name = some v := by
  rw [findField_eq]
  simp [Entry.own, h]

theorem C14_own_field_wins_nonvacuous :
    DbWF db ∧ EntryWF (get db "Parent") ∧
    (get db "Parent").fields.getItem (s "NOTE") = some (s "pn") ∧
    lookup db.toS (get db "Parent").toS (s "note") = some (s "pn") ∧
    lookup db.toS (get db "grand").toS (s "note") = some (s "gn") := by decide

/-- Inheritance: the lookup yields the value of the first entry along the cross-reference chain
that defines the field or role (model = reference lookup), for every well-formed database —
every graph, cyclic or not — every entry (of the database or not) and every name. -/
theorem C14_inherits_nearest (db : BibData) (hdb : DbWF db) (e : Entry) (he : EntryWF e) (name : Str) :
    e.findField name (some db) = lookup db.toS e.toS name :=
  findField_spec hdb he name _ (Nat.le_refl _)

theorem C14_inherits_nearest_nonvacuous :
    -- `child` has no note: its parent's wins over its grandparent's; `year` and `author` come from two levels up
    lookup db.toS (get db "child").toS (s "note") = some (s "pn") ∧
    lookup db.toS (get db "child").toS (s "year") = some (s "1984") ∧
    lookup db.toS (get db "child").toS (s "author") = some (s "G, A") ∧
    lookup db.toS (get db "child").toS (s "editor") = some (s "E, One and E, Two") ∧
    lookup db.toS (get db "child").toS (s "title") = some (s "T") ∧
    lookup db.toS (get db "Parent").toS (s "title") = none := by decide

/-- [model wiring]  Person roles are visible as `" and "`-joined fields (when no field of that name
hides them).  One unfolding of `findField` / `findPersonField`; the independent statement (own and
inherited roles against the reference lookup) is `C14_inherits_nearest`. -/
theorem C14_person_roles_joined (bibData : Option BibData) (visited : List Str) (e : Entry) (role : Str)
    (persons : List Str) (hf : e.fields.getItem role = none) (hp : e.persons.getItem role = some persons) :
    findField bibData visited e role = some (joinWith Pybtex.andSep persons) := by
  rw [findField_eq]
  simp [Entry.own, hf, findPersonField, hp]

theorem C14_person_roles_joined_nonvacuous :
    (get db "Parent").fields.getItem (s "Editor") = none ∧
    (get db "Parent").persons.getItem (s "Editor") = some [s "E, One", s "E, Two"] ∧
    joinWith Pybtex.andSep [s "E, One", s "E, Two"] = s "E, One and E, Two" := by decide

/-- A field counts as missing iff no entry along the whole chain defines it (as a field or a
role); without a database only the entry itself is asked. -/
theorem C14_missing_iff (db : BibData) (hdb : DbWF db) (e : Entry) (he : EntryWF e) (name : Str) :
    (e.findField name (some db) = none ↔ ∀ q ∈ walk db.toS (db.toS.length + 1) e.toS, q.own name = none) ∧
    (e.findField name none = none ↔ e.toS.own name = none) := by
  constructor
  · rw [C14_inherits_nearest db hdb e he, lookup, List.findSome?_eq_none_iff]
  · show findField none [] e name = none ↔ _
    rw [findField_noDb, Entry.own_toS he]

theorem C14_missing_iff_nonvacuous :
    lookup db.toS (get db "grand").toS (s "title") = none ∧
    lookup db.toS (get db "child").toS (s "publisher") = none ∧
    (get db "child").toS.own (s "note") = none := by decide

/-- Termination.  The lookup is a total function (Lean accepts `findField` only with its
termination proof: each step follows a database key not followed before).  Its answer is the
same as that of a walk of ANY length ≥ `db.length + 1` along the chain — so going round a cycle
once more can never change it — and on a chain (cyclic or not) none of whose entries defines the
field the answer is "missing".  And it gets there quickly: the lookup instrumented with a counter
(`findFieldHops`: same answer) follows at most as many cross-references as the database has
entries, whatever the graph — the bound on the recursion depth (two Python frames per
cross-reference in the pinned code; iterations of a loop with proposed_fixes/C14-3). -/
theorem C14_terminates (db : BibData) (hdb : DbWF db) (e : Entry) (he : EntryWF e) (name : Str) :
    (∀ n, db.toS.length + 1 ≤ n →
        e.findField name (some db) = (walk db.toS n e.toS).findSome? (·.own name)) ∧
    ((∀ n, ∀ q ∈ walk db.toS n e.toS, q.own name = none) → e.findField name (some db) = none) ∧
    ((findFieldHops (some db) [] e name).1 = e.findField name (some db) ∧
      (findFieldHops (some db) [] e name).2 ≤ db.toS.length) := by
  refine ⟨fun n hn => findField_spec hdb he name n hn, ?_, findFieldHops_fst _ _ _ _, ?_⟩
  · intro h
    rw [findField_spec hdb he name _ (Nat.le_refl _), List.findSome?_eq_none_iff]
    exact h _
  · have := findFieldHops_le db [] e name
    rw [unvisited_nil, ← toS_length hdb] at this
    exact this

theorem C14_terminates_nonvacuous :
    -- self reference: own field found, other field missing; mutual reference: found across the cycle, else missing
    lookup db.toS (get db "self").toS (s "note") = some (s "sn") ∧
    lookup db.toS (get db "self").toS (s "year") = none ∧
    lookup db.toS (get db "m1").toS (s "year") = some (s "2001") ∧
    lookup db.toS (get db "m1").toS (s "note") = none ∧
    lookup db.toS (get db "m2").toS (s "note") = none ∧
    (walk db.toS 50 (get db "m1").toS).findSome? (·.own (s "note")) = none ∧
    -- cross-references followed: two up the chain child → Parent → grand; one round the cycle m1 ⇄ m2 and then it stops
    findFieldHops (some db) [] (get db "child") (s "year") = (some (s "1984"), 2) ∧
    findFieldHops (some db) [] (get db "m1") (s "note") = (none, 2) ∧
    findFieldHops (some db) [] (get db "self") (s "year") = (none, 1) ∧
    db.toS.length = 7 := by decide +kernel

/-- A dangling reference: the lookup of a field the entry does not define itself is "missing"
(not a crash), and resolving a citation list reports the bad cross-reference whenever the entry
goes into the bibliography — because it is cited or because the threshold appended it. -/
theorem C14_dangling (db : BibData) (hdb : DbWF db) (c : Str) (e : Entry) (name x : Str)
    (hc : db.entries.getItem c = some e) (hx : e.fields.getItem Pybtex.xrefName = some x)
    (hd : db.entries.getItem x = none) :
    (e.own name = none → e.findField name (some db) = none) ∧
    (∀ (cits : List Str) (m : Int), c ∈ (db.addExtraCitations cits m).1 →
      Report.badCrossref c x ∈ (db.addExtraCitations cits m).2) := by
  constructor
  · intro hown
    show findField (some db) [] e name = none
    rw [findField_eq, hown]
    simp [hx, hd]
  · intro cits m hcL
    simp only [BibData.addExtraCitations, crossreferenced_spec hdb] at hcL ⊢
    simp only [List.mem_map]
    refine ⟨(c, x), ?_, rfl⟩
    rw [dangling_eq, List.mem_filterMap]
    refine ⟨c, hcL, ?_⟩
    have hf := getItem_entries hdb c
    rw [hc] at hf
    obtain ⟨hwe, -⟩ := getItem_entries_wf hdb hc
    have hfx := getItem_entries hdb x
    rw [hd] at hfx
    simp only [danglingAt, ← hf, Option.map_some, Option.bind_some, ← Entry.crossref_toS hwe, hx, ← hfx, Option.map_none]

theorem C14_dangling_nonvacuous :
    (db.entries.getItem (s "dang")).isSome = true ∧
    (get db "dang").fields.getItem Pybtex.xrefName = some (s "nowhere") ∧
    (db.entries.getItem (s "nowhere")).isNone = true ∧
    lookup db.toS (get db "dang").toS (s "note") = none ∧
    db.addExtraCitations [s "child", s "dang"] 2 =
      ([s "child", s "dang"], [Report.badCrossref (s "dang") (s "nowhere")]) ∧
    -- `dang` is not cited: the threshold appends it (its child `kid` is cited), and its dangling reference is reported
    (dbOf [(s "kid", entry [("crossref", "dang")] []), (s "dang", entry [("crossref", "nowhere")] [])]).addExtraCitations [s "kid"] 1 =
      ([s "kid", s "dang"], [Report.badCrossref (s "dang") (s "nowhere")]) := by decide

/-- [model wiring]  In the model the value a BST program gets from a field variable
(`bstFieldValue`: `Field.value`; `missing$` is 1 exactly for `MissingField`) and the value the
template node `field` gets in the Python engine (`pythonEngineField`, whose formatting context now
carries the database) are THE SAME call `e.findField name (some db)` in two wrappers: conjuncts 3
and 4 (a value on one side iff the same value on the other, missing iff missing) hold by
definition, conjuncts 1 and 2 are `C14_inherits_nearest` once more (that one lookup is the
reference lookup).  The theorem therefore only records the wiring of the model.  That the two
REAL engines agree — `Field.value` and the template `field` node both call `Entry._find_field`,
and the formatting context carries `bib_data` — is a modelling decision carried by the
correspondence check (oracle clause `engines_agree`), not by this theorem.
(Person ROLES reach the Python styles through the `names` node, the label styles and the
sorting styles, which do not go through this lookup: `C14_python_names_partial`,
`C14_python_names_neg`.) -/
theorem C14_engines_agree (db : BibData) (hdb : DbWF db) (e : Entry) (he : EntryWF e) (name : Str) :
    (bstFieldValue db e name = match lookup db.toS e.toS name with
        | some v => BstValue.str v
        | none => BstValue.missing name) ∧
    (pythonEngineField db e name = match lookup db.toS e.toS name with
        | some v => Except.ok v
        | none => Except.error name) ∧
    (∀ v, bstFieldValue db e name = BstValue.str v ↔ pythonEngineField db e name = Except.ok v) ∧
    (bstFieldValue db e name = BstValue.missing name ↔ pythonEngineField db e name = Except.error name) := by
  have h := C14_inherits_nearest db hdb e he name
  simp only [bstFieldValue, pythonEngineField, templateField, h]
  cases lookup db.toS e.toS name with
  | none => simp
  | some v => simp

theorem C14_engines_agree_nonvacuous :
    DbWF db ∧ EntryWF (get db "child") ∧
    lookup db.toS (get db "child").toS (s "note") = some (s "pn") ∧
    lookup db.toS (get db "m1").toS (s "note") = none := by decide

/-- The Python engine and person roles.  Its templates show persons through the node `names`,
which reads `entry.persons[role]`: for a role the entry HAS ITSELF (and no field of that name
hides) this is what the property demands — the persons whose `' and '`-joined names are the
reference lookup and what a BST program sees. -/
theorem C14_python_names_partial (db : BibData) (hdb : DbWF db) (e : Entry) (he : EntryWF e) (role : Str)
    (persons : List Str) (hf : e.fields.getItem role = none) (hp : e.persons.getItem role = some persons) :
    pythonEngineNames db e role = Except.ok persons ∧
    lookup db.toS e.toS role = some (joinWith Pybtex.andSep persons) ∧
    bstFieldValue db e role = BstValue.str (joinWith Pybtex.andSep persons) := by
  have h := C14_inherits_nearest db hdb e he role
  have h2 := C14_person_roles_joined (some db) [] e role persons hf hp
  refine ⟨by simp [pythonEngineNames, templateNames, hp], ?_, ?_⟩
  · rw [← h]; exact h2
  · simp only [bstFieldValue]
    rw [show e.findField role (some db) = some (joinWith Pybtex.andSep persons) from h2]

theorem C14_python_names_partial_nonvacuous :
    (get db "Parent").fields.getItem (s "editor") = none ∧
    (get db "Parent").persons.getItem (s "editor") = some [s "E, One", s "E, Two"] ∧
    pythonEngineNames db (get db "Parent") (s "editor") = Except.ok [s "E, One", s "E, Two"] := by decide

/-- … but NOT for an inherited role, nor for the inputs of labels and sort keys (finding
C14-python-engine-reads-own-persons): `@book{kid, title, crossref = {bk}}`,
`@book{bk, author = {Yb, Bb}, year = 2001, …}`.  The reference lookup and the BibTeX engine
give `kid` the author of `bk`; the `names` node of the Python engine raises
`FieldIsMissing(author)`, and the year the alpha labels and the `author_year_title` sort key read
(`entry.fields`) is absent although the `field` node of the same engine inherits it. -/
theorem C14_python_names_neg :
    let d := dbOf [(s "kid", entry [("title", "T"), ("crossref", "bk")] []),
                   (s "bk", entry [("title", "B"), ("publisher", "P"), ("year", "2001")] [("author", ["Yb, Bb"])])]
    DbWF d ∧ EntryWF (get d "kid") ∧
    lookup d.toS (get d "kid").toS (s "author") = some (s "Yb, Bb") ∧
    bstFieldValue d (get d "kid") (s "author") = BstValue.str (s "Yb, Bb") ∧
    pythonEngineNames d (get d "kid") (s "author") = Except.error (s "author") ∧
    pythonEngineField d (get d "kid") (s "year") = Except.ok (s "2001") ∧
    styleReadsField (get d "kid") (s "year") = none := by decide +kernel

end Pybtex.Props
