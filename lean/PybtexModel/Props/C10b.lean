/-
C10 (extension) — the located errors of the `.bib` reader can be SHOWN: `command_start`, the
`error_context_info` of the exception objects, `LowLevelParser.get_error_context`,
`TokenRequired.get_context` and `errors.format_error`.

Property theorems only.  Model: `Model/BibContext.lean` (`parseBibCS`: the reader of
`Model/BibParse.lean` run round by round with `command_start` recorded; `Located.ctx / exc / render`:
the exception object and its rendering through the error-channel model of C16,
`Model/Errors.lean`).  Lemmas: `Lemmas/BibContext.lean`.
-/
import PybtexModel.Lemmas.BibContext
import PybtexModel.Props.C16
import PybtexModel.Gen.BibReaderConsts

namespace Pybtex.Props
open Pybtex Pybtex.Bib

/-- the initial reader state of `parseBibCS` / `parseBib` -/
private theorem parseBibCS_spec (text : Str) (strict : Bool) (wanted : Option (List Str))
    (macros0 : List (Str × Str)) (roles : List Str) :
    CSSpec text (initSt text strict wanted macros0 roles) []
      (parseBibCS text strict wanted macros0 roles) (parseBib text strict wanted macros0 roles) :=
  parseLoopCS_spec text (text.length + 1) (initSt text strict wanted macros0 roles) []
    (Nat.le_refl _) (List.suffix_refl _) rfl

/-- **The reader with `command_start` is the reader** (refinement, every text / mode / wanted-set /
macro table / person-field list).  `parseBibCS` — the command loop run round by round, every round
on an EMPTY report list, with the position of the round's `@` recorded — returns exactly the final
state and raised error of `parseBib`; the located problems it records are, in order, the problems
`parseBib` reports, each with the position `len(text) - len(unread text)` of the ghost `errAt`
(cf. `C10_located_exact`); the located error that left the reader is the raised one, at the position
of the final state.  (Not by construction: it rests on the frame property of a round — the problems
reported before do not influence it, `loopStep_frame`.) -/
theorem C10_context_refines (text : Str) (strict : Bool) (wanted : Option (List Str))
    (macros0 : List (Str × Str)) (roles : List Str) :
    (parseBibCS text strict wanted macros0 roles).1 = parseBib text strict wanted macros0 roles ∧
    (parseBibCS text strict wanted macros0 roles).2.1.map (·.err)
      = (parseBib text strict wanted macros0 roles).1.errs ∧
    (parseBibCS text strict wanted macros0 roles).2.1.map (·.pos)
      = (parseBib text strict wanted macros0 roles).1.errAt.map (text.length - ·.length) ∧
    (∀ l, (parseBibCS text strict wanted macros0 roles).2.2 = some l →
      (parseBib text strict wanted macros0 roles).2 = some l.err ∧
      l.pos = text.length - (parseBib text strict wanted macros0 roles).1.rest.length) ∧
    ((parseBibCS text strict wanted macros0 roles).2.2 = none →
      (parseBib text strict wanted macros0 roles).2 = none) := by
  obtain ⟨h1, ⟨new, hn1, _, hn3, hn4⟩, h3, h4⟩ := parseBibCS_spec text strict wanted macros0 roles
  have hnew : (parseBibCS text strict wanted macros0 roles).2.1 = new := by rw [hn1]; rfl
  refine ⟨h1, ?_, ?_, fun l hl => ⟨(h3 l hl).1, (h3 l hl).2.2⟩, fun hn => ?_⟩
  · rw [hnew, ← hn3]; rfl
  · rw [hnew, ← hn4]; rfl
  · rcases h4 hn with h | h
    · exact h
    · exact absurd rfl ((Errors.parseBib_noInternal text strict wanted macros0 roles).2 _ h)

/-- **Every located syntax error lies inside its command** (all inputs): for every syntax error the
reader reports or raises (`TokenRequired`, `PrematureEOF`, the two brace errors, `UndefinedMacro`),
`command_start < pos ≤ len(text)` and `text[command_start]` is an `@` (the context shown starts at
the `@` of the command the error belongs to) — so `before_error = text[command_start:pos]` of
`LowLevelParser.get_error_context` is never empty, `before_error.splitlines()[-1]` cannot raise
`IndexError`, and the `error_context_info` satisfies `CtxInfo.WF`, the hypothesis under which C16
proves the rendering total. -/
theorem C10_context_wf (text : Str) (strict : Bool) (wanted : Option (List Str))
    (macros0 : List (Str × Str)) (roles : List Str) (l : Located)
    (hl : l ∈ (parseBibCS text strict wanted macros0 roles).2.1 ∨
      (parseBibCS text strict wanted macros0 roles).2.2 = some l)
    (hs : synKind l.err.kind = true) :
    l.start < l.pos ∧ l.pos ≤ text.length ∧ text[l.start]? = some '@' ∧ (l.ctx text).WF = true := by
  obtain ⟨_, ⟨new, hn1, hn2, _, _⟩, h3, _⟩ := parseBibCS_spec text strict wanted macros0 roles
  have hok : LocOK text l := by
    rcases hl with hl | hl
    · rw [hn1] at hl; exact hn2 l (by simpa using hl)
    · exact (h3 l hl).2.1
  obtain ⟨a, b, c, d⟩ := hok hs
  refine ⟨a, b, d, ?_⟩
  show (decide (l.start < l.pos) && decide (l.start < text.length)) = true
  simp [a, c]

/-- **Every problem of the reader is renderable, with its real context** — composition with C16:
for every text, mode, wanted-set, macro table, person-field list, file name and prefix, each problem
the reader reports and the error it raises IS an exception object of one of the eight classes of
`bibClasses`, built with the `error_context_info` `(command_start, lineno, pos)` the reader really
has at that moment; it satisfies the hypothesis `Err.WF` of `C16_render_total`, hence
`errors.format_error` is defined on it and consists of the context lines followed by
`prefix + str(error)`.  (C16 alone has the context as a PARAMETER of `ofBib`; here it is computed.) -/
theorem C10_context_renderable (text : Str) (strict : Bool) (wanted : Option (List Str))
    (macros0 : List (Str × Str)) (roles : List Str) (fn : Option Str) (pre : Str) (l : Located)
    (hl : l ∈ (parseBibCS text strict wanted macros0 roles).2.1 ∨
      (parseBibCS text strict wanted macros0 roles).2.2 = some l) :
    ∃ x ctx, l.exc fn text = some x ∧ x.className ∈ Errors.bibClasses ∧ x.WF = true ∧
      x.contextLines = .ok ctx ∧
      l.render fn text pre = some (.ok (joinWith ['\n'] ((ctx ++ [pre ++ x.str]).map (Errors.withFile x.getFilename)))) := by
  obtain ⟨hr1, hr2, _, hr4, _⟩ := C10_context_refines text strict wanted macros0 roles
  obtain ⟨hI1, hI2⟩ := Errors.parseBib_noInternal text strict wanted macros0 roles
  have hk : l.err.kind ≠ .internal := by
    rcases hl with hl | hl
    · apply hI1
      rw [← hr2]
      exact List.mem_map_of_mem hl
    · exact hI2 _ (hr4 l hl).1
  obtain ⟨x, hx, hc⟩ := Errors.ofBib_some fn (l.ctx text) l.err hk
  have hwf : x.WF = true := by
    unfold Errors.ofBib at hx
    cases hkd : l.err.kind with
    | tokenRequired d =>
      rw [hkd] at hx
      simp only [Option.some.injEq] at hx
      subst hx
      have := (C10_context_wf text strict wanted macros0 roles l hl (by rw [hkd]; rfl)).2.2.2
      exact this
    | internal => exact absurd hkd hk
    | _ => rw [hkd] at hx; simp only [Option.some.injEq] at hx; subst hx; rfl
  obtain ⟨ctx, h1, _, h3⟩ := C16_render_total x hwf pre
  refine ⟨x, ctx, hx, hc, hwf, h1, ?_⟩
  show (Errors.ofBib fn (l.ctx text) l.err).map (fun x => Errors.formatError x pre) = _
  rw [hx]
  simp only [Option.map_some, h3]

/-- non-vacuity and a kernel-evaluated instance: `'='` missing in the second line of an entry that
starts in line 1 — the reader records `command_start = 0`, `pos = 20`, and non-strict mode prints
the command from its `@` to the end of the offending line, the marker under column 8 and the
located message (the very text of `C16_render_total_nonvacuous`, whose context there is an input) -/
theorem C10_context_renderable_nonvacuous :
    (parseBibCS "@article{k,\n  title x\n}\n".toList false none).2.1
      = [⟨⟨.tokenRequired "'='", some 2⟩, 0, 20⟩] ∧
    ((parseBibCS "@article{k,\n  title x\n}\n".toList false none).2.1.map
        (Located.render (some "a.bib".toList) "@article{k,\n  title x\n}\n".toList Errors.warningPrefix))
      = [some (.ok ("a.bib: @article{k,\na.bib:   title x\na.bib:        ^^^\n" ++
                    "a.bib: WARNING: syntax error in line 2: '=' expected").toList)] ∧
    -- a second command further down: its own `command_start`, after a data error without position
    (parseBibCS "@a{k, t = 1, t = 2}\n@b{j,\n u = }".toList false none).2.1.map (fun l => (l.start, l.pos))
      = [(0, 19), (20, 31)] ∧
    -- strict mode: the raised error is located in the same way
    (parseBibCS "x @a{k, t = y z}".toList true none).2.2
      = some ⟨⟨.undefinedMacro "y".toList, some 1⟩, 2, 13⟩ := by
  decide +kernel

/-- **The literals of the reader model are those of the source** (table comparison; the left sides
are regenerated from /repo on every run, `harness/tablegen/c10.py`): the nesting limit of `strLoop`
(`d + 1 > 100` = `level > max_level` with `level` starting at 0), the descriptions of the patterns
and literals that `TokenRequired` messages are made of, the regular expressions the hand-written
matchers `Pat.matchAt` / `eatWs` / `countNl` / `findNewlineEnd` stand for, the `PrematureEOF` and
`... expected` messages and the `error_type`s used by `str(error)`, and the file name
`parse_string` gives its error objects. -/
theorem C10_model_constants_match_source :
    Gen.rdr_bibMaxLevel = 100 ∧ Gen.rdr_bibLevel0 = 0 ∧
    Gen.rdr_bibPatDescs = [Pat.name.desc, Pat.keyParen.desc, Pat.keyBrace.desc, Pat.number.desc] ∧
    Gen.rdr_bibLiterals.map (·.2) = ['{', '}', '(', ')', '"', ',', '=', '#', '@'].map (fun c => (Pat.lit c).desc) ∧
    Gen.rdr_bibLiterals.map (·.1) = ["\\{", "\\}", "\\(", "\\)", "\"", ",", "=", "\\#", "@"] ∧
    Gen.rdr_bibRegexes = ["[^\\s\\,]+", "[^\\s\\,}]+", "[0123456789]+", "\\s+", "\\n|(\\r\\n)|\\r"] ∧
    Gen.rdr_bibEofMessage.toList = (Errors.Err.syntaxErr .prematureEOF [] none none).message ∧
    ("x" ++ Gen.rdr_bibRequiredSuffix).toList
      = (Errors.Err.tokenRequired ['x'] none ⟨.lowLevel, [], none, none, 0⟩).message ∧
    Gen.rdr_bibErrorTypes.map String.toList
      = [Errors.SyntaxClass.pybtexSyntaxError.errorType, Errors.SyntaxClass.prematureEOF.errorType,
         "syntax error".toList, Errors.SyntaxClass.undefinedMacro.errorType] ∧
    Gen.rdr_bibDefaultFilename = "<INPUT>" := by
  decide +kernel

end Pybtex.Props
