/-
C02 (round 2 extension) — the concrete LaTeX encoder inside the theorems, `_encode_with_comments`,
and the TEXT of the BibTeXML writer.

* `C02_encode_exact`            `encodeLatex` (what `Writer._encode` does with the default encoding) is the
                                identity EXACTLY on the strings free of `# % & _ ~`, and never shortens
* `C02_bibtex_roundtrip_latex`  `C02_bibtex_roundtrip` with the modelled encoder: no hypothesis about the encoder left
* `C02_chain_latex`             `C02_chain` / `C02_lower` / `C02_chain_steps` for every `Serial` whose encoder is the modelled one
* `C02_encode_any_encoding`     `Writer(encoding=…)._encode` (C09's model of `codecs.encode(…, 'ulatex+<encoding>')`) equals
                                `encodeLatex` on every string the encoding can hold; `_neg`: not beyond
* `C02_encode_comments`         `_encode_with_comments` keeps a text free of `# & _ ~` (percent signs allowed) unchanged
* `C02_bibtex_roundtrip_percent` the BibTeX round trip on the wider domain `WFDbP`: percent signs in the preamble
* `C02_xml_text_lexical`        character data and attribute values written by the BibTeXML writer are read back
                                by the reference reader as the same string — EVERY string
* `C02_xml_text_example`        the exact text of `to_string('bibtexml')` on an example (kernel evaluation)
* `C02_tables_agree`            the constants the models hard-code are the ones regenerated from /repo and the
                                running libraries (`Gen/C02Tables.lean`)
-/
import PybtexModel.Props.C02
import PybtexModel.Lemmas.BibWriteEncode
import PybtexModel.Lemmas.BibWriteText
import PybtexModel.Lemmas.BibWriteEncoding
import PybtexModel.Lemmas.BibWritePercent
import PybtexModel.Gen.C02Tables

namespace Pybtex.Props
open Pybtex Pybtex.Spec Pybtex.Bib Pybtex.BibSpec Pybtex.BibWrite Pybtex.C02

/-- **The encoder, exactly.**  `encodeLatex` — the model of `codecs.encode(text, 'ulatex+utf-8')`,
compared with the real `Writer._encode` by the op `encode` and with latexcodec's table on every run
(`C02_tables_agree`) — returns its argument unchanged IF AND ONLY IF the argument contains none of
`# % & _ ~`; it never shortens a string.  So finding `C02-five-characters` concerns exactly the
strings the quantifier sets aside, and no other value is touched by the encoder. -/
theorem C02_encode_exact (s : Str) :
    (encodeLatex s = s ↔ Safe s = true) ∧ s.length ≤ (encodeLatex s).length :=
  ⟨encodeLatex_eq_iff s, encodeLatexAux_length false s⟩

theorem C02_encode_exact_nonvacuous :
    Safe "a {\\\"o} \"q\" @ , = \\x".toList = true ∧
    encodeLatex "a {\\\"o} \"q\" @ , = \\x".toList = "a {\\\"o} \"q\" @ , = \\x".toList ∧
    Safe "x~ y".toList = false ∧ encodeLatex "x~ y #1".toList = "x\\textasciitilde\\ y \\#1".toList ∧
    encodeLatex "~~a".toList = "\\textasciitilde \\textasciitilde a".toList := by
  decide +kernel

/-- **BibTeX round trip with the modelled encoder**: `C02_bibtex_roundtrip` without any hypothesis
about the encoder — for every database of the domain `WFDb`, what `write_stream` writes with
`_encode = encodeLatex` is read back by the `.bib` reader without raising or reporting anything, as
the same entries and the same preamble (as one string). -/
theorem C02_bibtex_roundtrip_latex (d : BibData) (h : WFDb d = true) (strict : Bool) :
    ∃ text, writeStream encodeLatex d = .ok text ∧
      (parseBib text strict none).2 = none ∧ (parseBib text strict none).1.errs = [] ∧
      (parseBib text strict none).1.db.entries = d.entries ∧
      (parseBib text strict none).1.db.preamble = canonPreamble d ∧
      ((parseBib text strict none).1.db.preamble).flatten = d.preambleText :=
  C02_bibtex_roundtrip encodeLatex (fun s hs => encodeLatexAux_safe s hs) d h strict

theorem C02_bibtex_roundtrip_latex_nonvacuous :
    WFDb c02Db = true ∧ writeStream encodeLatex c02Db = writeStream id c02Db := by
  decide +kernel

/-- **Chains with the modelled encoder**: for every `Serial` whose `encode` is `encodeLatex` the
encoder hypothesis of `C02_chain`, `C02_lower` and `C02_chain_steps` holds; stated here for
`C02_chain` and `C02_lower` (the serialiser hypotheses `LosslessOn` for YAML / BibTeXML remain). -/
theorem C02_chain_latex (S : Serial) (hS : S.encode = encodeLatex) :
    (∀ s, Safe s = true → S.encode s = s) ∧
    (∀ (fs : List Fmt) (d : BibData), (∀ f ∈ fs, inDomain f d = true) →
      (∀ p ∈ stages true fs d, LosslessOn S p.1 p.2) → chain S true fs d = .ok (chainDb fs d)) ∧
    (∀ (f1 f2 : Fmt) (fs : List Fmt) (d : BibData), (∀ f ∈ f1 :: f2 :: fs, inDomain f d = true) →
      (∀ p ∈ stages false (f1 :: f2 :: fs) d, LosslessOn S p.1 p.2) →
      ∃ d', chain S false (f1 :: f2 :: fs) d = .ok d' ∧ d'.entries = (lowerSpec d).entries ∧
        d'.preamble = (chainDb (f1 :: f2 :: fs) d).preamble) := by
  have henc : ∀ s, Safe s = true → S.encode s = s := fun s hs => by rw [hS]; exact encodeLatexAux_safe s hs
  exact ⟨henc, fun fs d h hL => C02_chain S henc fs d h hL,
    fun f1 f2 fs d h hL => C02_lower S henc f1 f2 fs d h hL⟩

/-- the witness serialiser of `C02_serial_witness` with the modelled encoder in place of the identity -/
def c02LatexSerial : Serial := { Ser.witness with encode := encodeLatex }

theorem C02_chain_latex_nonvacuous :
    chain c02LatexSerial true [.bibtex, .yaml, .bibtexml, .bibtex] c02Db =
      .ok (chainDb [.bibtex, .yaml, .bibtexml, .bibtex] c02Db) := by
  refine (C02_chain_latex c02LatexSerial rfl).2.1 _ c02Db (by decide +kernel) (fun p _ => ?_)
  exact losslessOn_of_all (S := c02LatexSerial) Ser.loadY_dumpY Ser.loadX_dumpX p.1 p.2

/-- **Any output encoding** (`Writer(encoding=…)`, `to_bytes(…, encoding=…)`, `to_file(…, encoding=…)`).
`Writer._encode` calls `codecs.encode(text, 'ulatex+' + self.encoding)` — the function the LaTeX
backend of C09 calls; `encodeWith E` is C09's model of it (`Backends.Latex.latexcodecEncodeE`, tables
regenerated from latexcodec; `E` = the characters the encoding can represent).  For EVERY string all
of whose characters the encoding can represent the result is `encodeLatex s`, whatever the encoding:
the theorems about `encodeLatex` (`C02_encode_exact`, `C02_bibtex_roundtrip_latex`) do not depend on
the default encoding UTF-8; in particular a string free of `# % & _ ~` is written unchanged. -/
theorem C02_encode_any_encoding (E : Char → Bool) (s : Str) (hE : ∀ c ∈ s, E c = true) :
    encodeWith E s = some (encodeLatex s) ∧ (Safe s = true → encodeWith E s = some s) := by
  refine ⟨encodeWith_eq E s hE, fun hs => ?_⟩
  rw [encodeWith_eq E s hE, show encodeLatex s = s from encodeLatexAux_safe s hs]

theorem C02_encode_any_encoding_nonvacuous :
    ("a~ b {x}".toList.all fun c => decide (c.toNat < 128)) = true ∧
    encodeWith (fun c => decide (c.toNat < 128)) "a~ b {x}".toList = some "a\\textasciitilde\\ b {x}".toList ∧
    encodeWith (fun c => decide (c.toNat < 256)) "\u00e9t\u00e9 100%".toList = some "\u00e9t\u00e9 100\\%".toList := by
  decide +kernel

/-- **… and not beyond**: the hypothesis "the encoding can hold the string" cannot be dropped.  With
`encoding='ascii'` a non-ASCII character latexcodec knows is replaced by a LaTeX macro (the `.bib`
reader does not translate it back: such a database does not survive `to_bytes('bibtex',
encoding='ascii')`, which is why the check keeps to encodings that can hold every string — see
ASSUMPTIONS), and one it does not know raises `UnicodeEncodeError`. -/
theorem C02_encode_any_encoding_neg :
    encodeWith (fun c => decide (c.toNat < 128)) "\u00e9".toList = some "\\'e".toList ∧
    encodeWith (fun c => decide (c.toNat < 128)) "1970\u20131971 \u2020 x".toList = some "1970--1971 \\dag\\ x".toList ∧
    encodeWith (fun c => decide (c.toNat < 128)) "\u4e2d".toList = none := by
  decide +kernel

/-- **`_encode_with_comments`** (`'%'.join(_encode(part) for part in text.split('%'))`, used for the
preamble): a text free of `# & _ ~` is returned unchanged — its percent signs included, which
`_encode` alone would escape. -/
theorem C02_encode_comments (s : Str) (h : SafeC s = true) :
    encodeWithComments encodeLatex s = s ∧ joinWith ['%'] (splitChar '%' s) = s :=
  ⟨encodeWithComments_safeC s h, joinWith_splitChar '%' s⟩

theorem C02_encode_comments_nonvacuous :
    SafeC "50% off %% x".toList = true ∧ Safe "50% off %% x".toList = false ∧
    encodeLatex "50% off".toList = "50\\% off".toList ∧
    encodeWithComments encodeLatex "a_b % c~".toList = "a\\_b % c\\textasciitilde".toList := by
  decide +kernel

/-- a database whose preamble has percent signs (TeX comments) -/
def c02DbPct : BibData :=
  { entries := [c02E2], preamble := ["\\newcommand{\\x}{y} % a comment".toList, " 50% off %% z".toList] }

/-- **Percent signs in the preamble survive the BibTeX round trip** (a hypothesis of
`C02_bibtex_roundtrip` removed for the preamble).  `WFDbP` is `WFDb` with the preamble condition
relaxed to: balanced (nesting ≤ 100), white-space-normalised, free of `# & _ ~` — `%` allowed.  For
every such database the writer (with the modelled encoder) succeeds and the `.bib` reader reads the
text back with nothing raised or reported as the same entries and the same preamble (one string).
`WFDbP` contains `WFDb` (third conjunct of the `_nonvacuous` theorem: for EVERY database). -/
theorem C02_bibtex_roundtrip_percent (d : BibData) (h : WFDbP d = true) (strict : Bool) :
    ∃ text, writeStream encodeLatex d = .ok text ∧
      (parseBib text strict none).2 = none ∧ (parseBib text strict none).1.errs = [] ∧
      (parseBib text strict none).1.db.entries = d.entries ∧
      (parseBib text strict none).1.db.preamble = canonPreamble d ∧
      ((parseBib text strict none).1.db.preamble).flatten = d.preambleText := by
  obtain ⟨text, s', h1, h2, h3, h4, h5⟩ := parseBib_written_pct d h strict
  refine ⟨text, h1, ?_⟩
  rw [h2]
  exact ⟨rfl, h3, h4, h5, by rw [h5]; exact canonPreamble_text d⟩

theorem C02_bibtex_roundtrip_percent_nonvacuous :
    WFDbP c02DbPct = true ∧ WFDb c02DbPct = false ∧ (∀ d, WFDb d = true → WFDbP d = true) ∧
    writeStream encodeLatex c02DbPct =
      .ok "@preamble{\"\\newcommand{\\x}{y} % a comment 50% off %% z\"}\n\n@misc{k2\n}\n".toList :=
  ⟨by decide +kernel, by decide +kernel, fun _ h => wfDbP_of_wfDb h, by decide +kernel⟩

/-- **BibTeXML text, lexical level.**  For EVERY string: the character data `XMLGenerator.characters`
writes (`escape`) denotes the string under the reference reading of XML character data
(`xmlUnescape`: the predefined entities and character references); the attribute value
`quoteattr` writes for the entry key denotes the key (`xmlAttrValue`: quotes matched, the quote
character not inside) and contains no literal tab / newline / return, so attribute-value
normalisation cannot change it.  (Tags — entry types, field and role names — are written raw:
that is the per-tree hypothesis `LosslessOn`, not covered here.) -/
theorem C02_xml_text_lexical (s : Str) :
    xmlUnescape (xmlEscape s) = some s ∧
    xmlAttrValue (xmlQuoteAttr s) = some s ∧
    xmlAttrNormal (xmlQuoteAttr s) = true :=
  ⟨xmlUnescape_escape s, xmlAttrValue_quoteAttr s, xmlQuoteAttr_normal s⟩

theorem C02_xml_text_lexical_nonvacuous :
    xmlEscape "a<b>&c \"q\"".toList = "a&lt;b&gt;&amp;c \"q\"".toList ∧
    xmlQuoteAttr "k\"1'<\n".toList = "\"k&quot;1'&lt;&#10;\"".toList ∧
    xmlQuoteAttr "k\"3".toList = "'k\"3'".toList ∧
    xmlUnescape "a &lt; b".toList = some "a < b".toList ∧ xmlUnescape "a < b".toList = none ∧
    xmlUnescape "R&D".toList = none := by
  decide +kernel

/-- a database using every construct of the BibTeXML writer -/
def c02DbX : BibData :=
  { entries := [{ key := "k\"1'<".toList, type := "book".toList, origType := "Book".toList,
                  fields := [("title".toList, "a<b & c".toList), ("Year".toList, [])],
                  persons := [("author".toList, [c02P1]), ("editor".toList, [])] },
                { key := "k2".toList, type := "misc".toList, origType := "misc".toList, fields := [], persons := [] }],
    preamble := ["not written".toList] }

/-- **BibTeXML text, the writer's own layout** (kernel evaluation of `xmlToString`, the model of
`to_string('bibtexml')`; the same text is compared with the real writer by the op `xmltext`). -/
theorem C02_xml_text_example :
    xmlToString c02DbX =
      ("<bibtex:file xmlns:bibtex=\"http://bibtexml.sf.net/\">\n\n" ++
       "    <bibtex:entry id=\"k&quot;1'&lt;\">\n        <bibtex:Book>\n" ++
       "            <bibtex:title>a&lt;b &amp; c</bibtex:title>\n            <bibtex:Year></bibtex:Year>\n" ++
       "            <bibtex:author>\n                <bibtex:person>\n" ++
       "                    <bibtex:first>Ludwig</bibtex:first>\n                    <bibtex:middle>X.</bibtex:middle>\n" ++
       "                    <bibtex:prelast>van</bibtex:prelast>\n                    <bibtex:last>Beethoven</bibtex:last>\n" ++
       "                    <bibtex:lineage>Jr</bibtex:lineage>\n                </bibtex:person>\n" ++
       "            </bibtex:author>\n        </bibtex:Book>\n    </bibtex:entry>\n\n" ++
       "    <bibtex:entry id=\"k2\">\n        <bibtex:misc>\n        </bibtex:misc>\n    </bibtex:entry>\n\n" ++
       "</bibtex:file>").toList ∧
    xmlWriteStream { entries := [] } =
      "<?xml version=\"1.0\" encoding=\"UTF-8\"?>\n<bibtex:file xmlns:bibtex=\"http://bibtexml.sf.net/\">\n\n</bibtex:file>\n".toList := by
  decide +kernel

/-- **The hard-coded constants are the real ones.**  The tables regenerated on every run from
latexcodec (every code point of the BMP, every 16th above), `xml.sax.saxutils`, `XMLGenerator` and
`_PrettyXMLWriter.__init__` (`Gen/C02Tables.lean`) coincide with what the models compute: the five
characters `encodeLatex` changes and their images, the space-eating state after `~` only, the
default encoding UTF-8, the images under `escape` / `quoteattr`, the namespace, the XML declaration,
the indentation width and the five part names. -/
theorem C02_tables_agree :
    Gen.C02.latexChanged = (['#', '%', '&', '_', '~'].map fun c => (c, encodeLatex [c])) ∧
    Gen.C02.latexEatsAfter = ['~'] ∧
    (Gen.C02.latexChanged.all fun p => isFive p.1) = true ∧
    (Gen.C02.latexEatsAfter.all fun c => encodeLatex [c, 'a'] == encodeLatex [c] ++ [' ', 'a'] &&
        encodeLatex [c, ' '] == encodeLatex [c] ++ ['\\', ' ']) = true ∧
    Gen.C02.writerEncoding = "UTF-8".toList ∧
    Gen.C02.xmlEscapes = (['&', '<', '>'].map fun c => (c, xmlEscape [c])) ∧
    (Gen.C02.xmlAttrEscapes.all fun p => xmlQuoteAttr [p.1] == '"' :: p.2 ++ ['"']) = true ∧
    Gen.C02.xmlAttrEscapes.map (·.1) = ['\t', '\n', '\r', '&', '<', '>'] ∧
    xmlQuoteAttr ['"', '\''] = '"' :: Gen.C02.xmlAttrBoth ++ ['\'', '"'] ∧
    Gen.C02.xmlNamespace = (xmlPrefix, xmlUri) ∧
    Gen.C02.xmlDeclaration = xmlDeclaration ∧
    xmlIndentLine 1 = List.replicate Gen.C02.xmlIndentWidth ' ' ∧
    Gen.C02.partNames = (personParts c02P1).map (·.1) := by
  decide +kernel

end Pybtex.Props
