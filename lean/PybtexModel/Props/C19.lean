/-
C19 — `.bbl` line wrapping preserves content and respects the width.

Property theorems only.  The model of `wrap` / `find_break` / `iter_lines`
(pybtex/bibtex/utils.py:33-93) is `Model/Wrap.lean`; the vocabulary of the statements
(`WsAt`, `LegalBreak`, `unjoin`, `nonWs`, `words`, `StrippedOf`) is `Spec/Wrap.lean`; helper lemmas
are in `Lemmas/Wrap.lean`.

All theorems hold for EVERY text `s`, EVERY integer `width` (also 0 and negative ones, which the
code accepts) and EVERY indent string; the few statements that only make sense for a white-space
indent say so in an explicit hypothesis.  `iterLines width indent s` is the list of lines yielded
by `iter_lines` (before `rstrip`), `wrap width indent s` the returned string.
-/
import PybtexModel.Lemmas.Wrap

namespace Pybtex.Props
open Pybtex Pybtex.Wrap

/-! ### content -/

/-- Joining the lines back together reproduces the text: there are white-space characters
`c₁ … cₖ` (one per line break) such that
`s = l₀ ++ [c₁] ++ drop |indent| l₁ ++ … ++ [cₖ] ++ drop |indent| lₖ ++ trail`, where `trail` is
empty – except that with an EMPTY indent one final white-space character of the text can
disappear (`wrap('aaaa ', 3, '')`, see `C19_content_trail_needed`).  Together with `C19_indent`
(the dropped prefix of every continuation line is the indent) nothing else is lost, duplicated
or altered; `C19_rstrip` relates these lines to the emitted ones. -/
theorem C19_content (width : Int) (indent s : Str) :
    ∃ (seps : List Char) (trail : Str),
      seps.length = (iterLines width indent s).length - 1 ∧
      (∀ c ∈ seps, isWs c = true) ∧
      s = unjoin indent.length (iterLines width indent s) seps ++ trail ∧
      (∀ c ∈ trail, isWs c = true) ∧ trail.length ≤ 1 ∧ (indent ≠ [] → trail = []) := by
  rcases iterLines_content width indent s with ⟨h1, h2⟩ | ⟨l, rest, seps, tr, hL, hsl, hsw, htw, htl, hti, _, hs⟩
  · exact ⟨[], [], by simp [h1], by simp, by rw [h1, h2]; rfl, by simp, by simp, fun _ => rfl⟩
  · exact ⟨seps, tr, by simp [hL, hsl], hsw, by rw [hL]; exact hs, htw, htl, hti⟩

/-- With a non-empty indent (BibTeX output: two blanks) the reconstruction is exact. -/
theorem C19_content_exact (width : Int) (indent s : Str) (hind : indent ≠ []) :
    ∃ seps : List Char, seps.length = (iterLines width indent s).length - 1 ∧
      (∀ c ∈ seps, isWs c = true) ∧ s = unjoin indent.length (iterLines width indent s) seps := by
  obtain ⟨seps, tr, h1, h2, h3, _, _, h6⟩ := C19_content width indent s
  rw [h6 hind, List.append_nil] at h3
  exact ⟨seps, h1, h2, h3⟩

/-- a non-trivial instance: three lines, separators blank and tab -/
theorem C19_content_exact_nonvacuous :
    iterLines 9 "  ".toList "01234 6789\t12345".toList
      = ["01234".toList, "  6789".toList, "  12345".toList] ∧
    "01234 6789\t12345".toList
      = unjoin 2 ["01234".toList, "  6789".toList, "  12345".toList] [' ', '\t'] := by
  decide +kernel

/-- The `trail` of `C19_content` cannot be dropped for the empty indent: the final blank of
`'aaaa '` is not in any line. -/
theorem C19_content_trail_needed :
    iterLines 3 [] "aaaa ".toList = ["aaaa".toList] ∧
    ∀ seps : List Char, "aaaa ".toList ≠ unjoin 0 ["aaaa".toList] seps := by
  refine ⟨by decide +kernel, ?_⟩
  intro seps h
  have := congrArg List.length h
  simp [unjoin] at this

/-- End to end, on the string `wrap` returns (white-space indent): the non-white-space
characters of the output are exactly those of the text, in the same order – wrapping never
loses, duplicates or alters a non-white-space character. -/
theorem C19_content_output (width : Int) (indent s : Str) (hind : ∀ c ∈ indent, isWs c = true) :
    nonWs (wrap width indent s) = nonWs s := by
  have hstrip : ((iterLines width indent s).map rstrip).map nonWs = (iterLines width indent s).map nonWs := by
    simp only [List.map_map]
    exact List.map_congr_left (fun l _ => nonWs_stripped (rstrip_spec l))
  rw [wrap, nonWs_joinWith_nl, hstrip]
  rcases iterLines_content width indent s with ⟨h1, h2⟩ | ⟨l, rest, seps, tr, hL, hsl, hsw, htw, _, _, _, hs⟩
  · rw [h1, h2]; rfl
  · have hp : ∀ l' ∈ rest, indent <+: l' := by
      intro l' hl'
      have := iterLines_all_prefix width indent s
      rcases Classical.em ((s.length : Int) > width) with hl | hl
      · cases hb : findBreak width indent s with
        | none => rw [iterLines_none hl hb] at hL; injection hL with _ h; subst h; simp at hl'
        | some p =>
          rw [iterLines_some hl hb] at hL
          injection hL with _ h
          exact iterLines_all_prefix width indent _ (List.prefix_append _ _) l' (h ▸ hl')
      · rw [iterLines_short hl] at hL
        split at hL
        · cases hL
        · injection hL with _ h; subst h; simp at hl'
    conv => rhs; rw [hs]
    rw [hL, nonWs_append, nonWs_append, nonWs_glue hind seps rest hsl hsw hp, nonWs_of_all_ws htw]
    simp

theorem C19_content_output_nonvacuous :
    wrap 9 "  ".toList "01234 6789\t12345 ".toList = "01234\n  6789\n  12345".toList ∧
    nonWs "01234\n  6789\n  12345".toList = "01234678912345".toList := by
  decide +kernel

/-! ### breaks -/

/-- Lines are broken only at white space: whenever a line `l` is followed by another line, the
text is `l ++ [c] ++ t` for a white-space character `c` – the only character the break
consumes – and the remaining lines are exactly the lines of `indent ++ t`.  Applied again to
`indent ++ t` this describes every break of the output. -/
theorem C19_breaks_at_ws (width : Int) (indent s l l' : Str) (rest : List Str)
    (h : iterLines width indent s = l :: l' :: rest) :
    ∃ c t, isWs c = true ∧ s = l ++ c :: t ∧ iterLines width indent (indent ++ t) = l' :: rest := by
  rcases Classical.em ((s.length : Int) > width) with hl | hl
  · cases hb : findBreak width indent s with
    | none => rw [iterLines_none hl hb] at h; simp at h
    | some p =>
      rw [iterLines_some hl hb] at h
      injection h with h1 h2
      obtain ⟨c, hc, hsplit⟩ := (findBreak_some hb).2.1.split
      exact ⟨c, s.drop (p + 1), hc, by rw [← h1]; exact hsplit, h2⟩
  · rw [iterLines_short hl] at h
    split at h <;> simp at h

theorem C19_breaks_at_ws_nonvacuous :
    iterLines 9 "  ".toList "01234 6789 12345".toList
      = "01234".toList :: "  6789".toList :: ["  12345".toList] := by
  decide +kernel

/-- No word is split, lost, duplicated or altered (white-space indent): the words of the text
are the words of the lines, line after line; the same holds for the returned string. -/
theorem C19_words (width : Int) (indent s : Str) (hind : ∀ c ∈ indent, isWs c = true) :
    ((iterLines width indent s).map words).flatten = words s ∧
    words (wrap width indent s) = words s := by
  have hstrip : ((iterLines width indent s).map rstrip).map words = (iterLines width indent s).map words := by
    simp only [List.map_map]
    exact List.map_congr_left (fun l _ => words_stripped (rstrip_spec l))
  have main : ((iterLines width indent s).map words).flatten = words s := by
    rcases iterLines_content width indent s with ⟨h1, h2⟩ | ⟨l, rest, seps, tr, hL, hsl, hsw, htw, _, _, _, hs⟩
    · rw [h1, h2]; rfl
    · have hp : ∀ l' ∈ rest, indent <+: l' := by
        intro l' hl'
        rcases Classical.em ((s.length : Int) > width) with hl | hl
        · cases hb : findBreak width indent s with
          | none => rw [iterLines_none hl hb] at hL; injection hL with _ h; subst h; simp at hl'
          | some p =>
            rw [iterLines_some hl hb] at hL
            injection hL with _ h
            exact iterLines_all_prefix width indent _ (List.prefix_append _ _) l' (h ▸ hl')
        · rw [iterLines_short hl] at hL
          split at hL
          · cases hL
          · injection hL with _ h; subst h; simp at hl'
      conv => rhs; rw [hs]
      rw [hL, words_append_all_ws _ htw, words_glue hind seps rest l hsl hsw hp]
      simp
  exact ⟨main, by rw [wrap, words_joinWith_nl, hstrip, main]⟩

theorem C19_words_nonvacuous :
    words (wrap 3 "  ".toList " a b\tc".toList) = ["a".toList, "b".toList, "c".toList] ∧
    wrap 3 "  ".toList " a b\tc".toList = " a b\n  c".toList := by
  decide +kernel

/-! ### indent -/

/-- Every continuation line starts with the indent.  For the emitted (right-stripped) lines:
an emitted continuation line starts with the indent, or – when nothing but white space followed
the indent – it is a prefix of the indent, i.e. EMPTY for a white-space indent. -/
theorem C19_indent (width : Int) (indent s : Str) :
    (∀ l ∈ (iterLines width indent s).tail, indent <+: l) ∧
    (∀ e ∈ ((iterLines width indent s).map rstrip).tail, indent <+: e ∨ e <+: indent) ∧
    ((∀ c ∈ indent, isWs c = true) →
      ∀ e ∈ ((iterLines width indent s).map rstrip).tail, indent <+: e ∨ e = []) := by
  have h1 : ∀ l ∈ (iterLines width indent s).tail, indent <+: l := by
    intro l hl
    rcases Classical.em ((s.length : Int) > width) with hlen | hlen
    · cases hb : findBreak width indent s with
      | none => rw [iterLines_none hlen hb] at hl; simp at hl
      | some p =>
        rw [iterLines_some hlen hb] at hl
        exact iterLines_all_prefix width indent _ (List.prefix_append _ _) l hl
    · rw [iterLines_short hlen] at hl
      split at hl <;> simp at hl
  have h2 : ∀ e ∈ ((iterLines width indent s).map rstrip).tail, indent <+: e ∨ e <+: indent := by
    intro e he
    rw [← List.map_tail] at he
    obtain ⟨l, hl, rfl⟩ := List.mem_map.1 he
    exact List.prefix_or_prefix_of_prefix (h1 l hl) (rstrip_prefix l)
  refine ⟨h1, h2, ?_⟩
  intro hind e he
  rcases h2 e he with h | h
  · exact Or.inl h
  · right
    -- a prefix of a white-space string that does not end in white space is empty
    rw [← List.map_tail] at he
    obtain ⟨l, _, rfl⟩ := List.mem_map.1 he
    have hlast := (rstrip_spec l).2
    cases hg : (rstrip l).getLast? with
    | none => exact List.getLast?_eq_none_iff.1 hg
    | some c =>
      have hc := hlast c hg
      have hmem : c ∈ indent := h.subset (List.mem_of_getLast? hg)
      rw [hind c hmem] at hc
      cases hc

theorem C19_indent_nonvacuous :
    (iterLines 3 "  ".toList "aaaa   bbbb".toList).tail = ["   ".toList, "  bbbb".toList] ∧
    ((iterLines 3 "  ".toList "aaaa   bbbb".toList).map rstrip).tail = [[], "  bbbb".toList] := by
  decide +kernel

/-! ### width -/

/-- A yielded line longer than `width` has no legal break position (no white space at any
position `q` with `|indent| < q ≤ width`); equivalently every line that has a legal break
position has length ≤ `width`.  The same holds for the emitted (right-stripped) lines. -/
theorem C19_width (width : Int) (indent s : Str) :
    (∀ l ∈ iterLines width indent s, (l.length : Int) > width → ∀ q, ¬ LegalBreak width indent l q) ∧
    (∀ l ∈ iterLines width indent s, (∃ q, LegalBreak width indent l q) → (l.length : Int) ≤ width) ∧
    (∀ e ∈ (iterLines width indent s).map rstrip, (e.length : Int) > width → ∀ q, ¬ LegalBreak width indent e q) ∧
    (∀ e ∈ (iterLines width indent s).map rstrip, (∃ q, LegalBreak width indent e q) → (e.length : Int) ≤ width) := by
  have h1 : ∀ l ∈ iterLines width indent s, (l.length : Int) > width → ∀ q, ¬ LegalBreak width indent l q := by
    refine iterLines_induct (w := width) (ind := indent)
      (fun _ L => ∀ l ∈ L, (l.length : Int) > width → ∀ q, ¬ LegalBreak width indent l q) ?_ ?_ ?_ s
    · intro s hs l hl hlen
      split at hl
      · simp at hl
      · simp only [List.mem_singleton] at hl; subst hl; exact absurd hlen hs
    · intro s _ hb l hl _ q ⟨hq1, _, hq3⟩
      simp only [List.mem_singleton] at hl; subst hl
      have := findBreak_none hb q hq3
      omega
    · intro s p _ hb ih l hl hlen q ⟨hq1, hq2, hq3⟩
      simp only [List.mem_cons] at hl
      rcases hl with hl | hl
      · subst hl
        obtain ⟨_, hws, h3, _⟩ := findBreak_some hb
        have hplt := hws.lt
        have hlp : (s.take p).length = p := by simp only [List.length_take]; omega
        obtain ⟨hqp, hqs⟩ := WsAt_take.1 hq3
        have := h3 q hq1 hqp hqs
        omega
      · exact ih l hl hlen q ⟨hq1, hq2, hq3⟩
  have h3 : ∀ e ∈ (iterLines width indent s).map rstrip, (e.length : Int) > width → ∀ q, ¬ LegalBreak width indent e q := by
    intro e he hlen q ⟨hq1, hq2, hq3⟩
    obtain ⟨l, hl, rfl⟩ := List.mem_map.1 he
    have hp := rstrip_prefix l
    have hle : (rstrip l).length ≤ l.length := hp.length_le
    exact h1 l hl (by omega) q ⟨hq1, hq2, WsAt_prefix hp hq3⟩
  refine ⟨h1, ?_, h3, ?_⟩
  · intro l hl ⟨q, hq⟩
    rcases Classical.em ((l.length : Int) ≤ width) with h | h
    · exact h
    · exact absurd hq (h1 l hl (by omega) q)
  · intro e he ⟨q, hq⟩
    rcases Classical.em ((e.length : Int) ≤ width) with h | h
    · exact h
    · exact absurd hq (h3 e he (by omega) q)

/-- The width clause in its strongest form: a yielded line longer than `width` contains no
white space behind the indent AT ALL (not only none within the width) — it could not have been
broken anywhere: the line ends at the first white space after the over-long word. -/
theorem C19_width_no_break_point (width : Int) (indent s : Str) :
    ∀ l ∈ iterLines width indent s, (l.length : Int) > width →
      ∀ q, indent.length < q → ¬ WsAt l q := by
  refine iterLines_induct (w := width) (ind := indent)
    (fun _ L => ∀ l ∈ L, (l.length : Int) > width → ∀ q, indent.length < q → ¬ WsAt l q) ?_ ?_ ?_ s
  · intro s hs l hl hlen
    split at hl
    · simp at hl
    · simp only [List.mem_singleton] at hl; subst hl; exact absurd hlen hs
  · intro s _ hb l hl _ q hq1 hq3
    simp only [List.mem_singleton] at hl; subst hl
    have := findBreak_none hb q hq3
    omega
  · intro s p _ hb ih l hl hlen q hq1 hq3
    simp only [List.mem_cons] at hl
    rcases hl with hl | hl
    · subst hl
      obtain ⟨_, hws, h3, _⟩ := findBreak_some hb
      have hplt := hws.lt
      have hlp : (s.take p).length = p := by simp only [List.length_take]; omega
      obtain ⟨hqp, hqs⟩ := WsAt_take.1 hq3
      have := h3 q hq1 hqp hqs
      omega
    · exact ih l hl hlen q hq1 hq3

/-- an over-long word followed by two more words: the long word gets a line of its own -/
theorem C19_width_no_break_point_nonvacuous :
    iterLines 3 "  ".toList "aaaa b c".toList = ["aaaa".toList, "  b".toList, "  c".toList] := by
  decide +kernel

/-- both kinds of line occur: an over-long line without a legal break (the only white space of
`aa bb` is inside the region `q ≤ |indent|`), and a line with a legal break inside the width -/
theorem C19_width_nonvacuous :
    iterLines 3 "  ".toList "aa bb c".toList = ["aa bb".toList, "  c".toList] ∧
    iterLines 11 "  ".toList "01234 6789 12345".toList = ["01234 6789".toList, "  12345".toList] ∧
    LegalBreak 11 "  ".toList "01234 6789".toList 5 := by
  refine ⟨by decide +kernel, by decide +kernel, by decide, by decide, ' ', by decide, by decide⟩

/-- Lines are as long as possible (the docstring's promise): when the first line `l` is followed
by another line, `l` ends just before a white-space character of the text, and the next place
where it could have ended instead – the next white space, or the end of the text – lies beyond
`width`.  By `C19_breaks_at_ws` the same holds for every later line with respect to
`indent ++ remainder`. -/
theorem C19_greedy (width : Int) (indent s l l' : Str) (rest : List Str)
    (h : iterLines width indent s = l :: l' :: rest) :
    l = s.take l.length ∧ WsAt s l.length ∧ indent.length < l.length ∧
    ∀ q, l.length < q → (WsAt s q ∨ q = s.length) → width < (q : Int) := by
  rcases Classical.em ((s.length : Int) > width) with hl | hl
  · cases hb : findBreak width indent s with
    | none => rw [iterLines_none hl hb] at h; simp at h
    | some p =>
      rw [iterLines_some hl hb] at h
      injection h with h1 _
      obtain ⟨hip, hws, _, h4⟩ := findBreak_some hb
      have hplt := hws.lt
      have hlp : l.length = p := by rw [← h1]; simp only [List.length_take]; omega
      rw [hlp]
      refine ⟨h1.symm, hws, hip, ?_⟩
      intro q hq hor
      rcases hor with hor | hor
      · exact h4 q hq hor
      · omega
  · rw [iterLines_short hl] at h
    split at h <;> simp at h

theorem C19_greedy_nonvacuous :
    iterLines 11 "  ".toList "01234 6789 12345".toList
      = "01234 6789".toList :: "  12345".toList :: [] ∧
    WsAt "01234 6789 12345".toList 10 := by
  exact ⟨by decide +kernel, ' ', by decide, by decide⟩

/-- Breaks only happen at legal positions: every line that is followed by another line is
longer than the indent (the break position lies strictly behind the indent region), so the
loop of `iter_lines` makes progress – the fact termination rests on. -/
theorem C19_legal_break (width : Int) (indent s : Str) :
    ∀ l ∈ (iterLines width indent s).dropLast, indent.length < l.length := by
  refine iterLines_induct (w := width) (ind := indent)
    (fun _ L => ∀ l ∈ L.dropLast, indent.length < l.length) ?_ ?_ ?_ s
  · intro s _ l hl; split at hl <;> simp at hl
  · intro s _ _ l hl; simp at hl
  · intro s p _ hb ih l hl
    obtain ⟨hip, hws, _, _⟩ := findBreak_some hb
    have hplt := hws.lt
    cases hL : iterLines width indent (indent ++ s.drop (p + 1)) with
    | nil => rw [hL] at hl; simp at hl
    | cons b r =>
      rw [hL] at hl ih
      simp only [List.dropLast_cons_cons, List.mem_cons] at hl
      rcases hl with hl | hl
      · subst hl; simp only [List.length_take]; omega
      · exact ih l hl

/-! ### rstrip -/

/-- The returned string is the `"\n"`-join of the emitted lines; emitted line number `i` is
yielded line number `i` with trailing white space removed and nothing else, and no emitted
line ends in white space. -/
theorem C19_rstrip (width : Int) (indent s : Str) :
    ∃ emitted : List Str, wrap width indent s = joinWith ['\n'] emitted ∧
      emitted.length = (iterLines width indent s).length ∧
      ∀ i (h₁ : i < (iterLines width indent s).length) (h₂ : i < emitted.length),
        StrippedOf (iterLines width indent s)[i] emitted[i] := by
  refine ⟨(iterLines width indent s).map rstrip, rfl, by simp, ?_⟩
  intro i h₁ h₂
  simp only [List.getElem_map]
  exact rstrip_spec _

theorem C19_rstrip_nonvacuous :
    StrippedOf "ab \t ".toList "ab".toList ∧ rstrip "ab \t ".toList = "ab".toList := by
  refine ⟨⟨⟨" \t ".toList, by decide, by decide⟩, ?_⟩, by decide⟩
  intro c hc
  have : c = 'b' := by
    have h : "ab".toList.getLast? = some 'b' := by decide
    rw [h] at hc; injection hc with hc; exact hc.symm
  subst this; decide

/-! ### short texts, termination -/

/-- A text that fits into `width` comes back as a single line (no line for the empty text),
and `wrap` returns it right-stripped. -/
theorem C19_short_identity (width : Int) (indent s : Str) (h : (s.length : Int) ≤ width) :
    iterLines width indent s = (if s.isEmpty then [] else [s]) ∧ wrap width indent s = rstrip s := by
  have hl : ¬ (s.length : Int) > width := by omega
  refine ⟨iterLines_short hl, ?_⟩
  rw [wrap, iterLines_short hl]
  split
  · rename_i he
    have : s = [] := by simpa using he
    subst this
    rfl
  · rfl

theorem C19_short_identity_nonvacuous :
    (("ab c  ".toList.length : Nat) : Int) ≤ 6 ∧ wrap 6 "  ".toList "ab c  ".toList = "ab c".toList := by
  decide +kernel

/-- `iter_lines` terminates for every text, width and indent.  Termination itself is the
well-foundedness proof inside the definition of `iterLines` (`Model/Wrap.lean`: the next string
`indent + s[p+1:]` is shorter than `s` because `find_break` only returns positions with
`|indent| < p < |s|`, lemma `findBreak_bounds`); stated as a bound: at most `|s| + 1` lines. -/
theorem C19_terminates (width : Int) (indent s : Str) :
    (iterLines width indent s).length ≤ s.length + 1 := by
  refine iterLines_induct (w := width) (ind := indent) (fun s L => L.length ≤ s.length + 1) ?_ ?_ ?_ s
  · intro s _; split <;> simp
  · intro s _ _; simp
  · intro s p _ hb ih
    have := findBreak_bounds hb
    simp only [List.length_append, List.length_drop, List.length_cons] at ih ⊢
    omega

end Pybtex.Props
