/-
C19 — `.bbl` line wrapping preserves content and respects the width.

Property theorems only.  The model of `wrap` / `find_break` / `iter_lines`
(pybtex/bibtex/utils.py:33-93) is `Model/Wrap.lean`; the vocabulary of the statements
(`WsAt`, `LegalBreak`, `unjoin`, `nonWs`, `words`, `StrippedOf`) is `Spec/Wrap.lean`; helper lemmas
are in `Lemmas/Wrap.lean`.

All theorems hold for EVERY text `s`, EVERY integer `width` (also 0 and negative ones, which the
code accepts) and EVERY indent string; the few statements that only make sense for a white-space
indent say so in an explicit hypothesis.  `iterLines width indent s` is the list of lines yielded
by `iter_lines` (before `rstrip`), `wrap width indent s` the returned string.
-/
import PybtexModel.Lemmas.Wrap
import PybtexModel.Model.Interp

namespace Pybtex.Props
open Pybtex Pybtex.Wrap

/-! ### content -/

/-- Joining the lines back together reproduces the text: there are white-space characters
`c₁ … cₖ` (one per line break) such that
`s = l₀ ++ [c₁] ++ drop |indent| l₁ ++ … ++ [cₖ] ++ drop |indent| lₖ ++ trail`, where `trail` is
empty – except that with an EMPTY indent one final white-space character of the text can
disappear (`wrap('aaaa ', 3, '')`, see `C19_content_trail_needed`).  Together with `C19_indent`
(the dropped prefix of every continuation line is the indent) nothing else is lost, duplicated
or altered; `C19_rstrip` relates these lines to the emitted ones. -/
theorem C19_content (width : Int) (indent s : Str) :
    ∃ (seps : List Char) (trail : Str),
      seps.length = (iterLines width indent s).length - 1 ∧
      (∀ c ∈ seps, isWs c = true) ∧
      s = unjoin indent.length (iterLines width indent s) seps ++ trail ∧
      (∀ c ∈ trail, isWs c = true) ∧ trail.length ≤ 1 ∧ (indent ≠ [] → trail = []) := by
  rcases iterLines_content width indent s with ⟨h1, h2⟩ | ⟨l, rest, seps, tr, hL, hsl, hsw, htw, htl, hti, _, hs⟩
  · exact ⟨[], [], by simp [h1], by simp, by rw [h1, h2]; rfl, by simp, by simp, fun _ => rfl⟩
  · exact ⟨seps, tr, by simp [hL, hsl], hsw, by rw [hL]; exact hs, htw, htl, hti⟩

/-- With a non-empty indent (BibTeX output: two blanks) the reconstruction is exact. -/
theorem C19_content_exact (width : Int) (indent s : Str) (hind : indent ≠ []) :
    ∃ seps : List Char, seps.length = (iterLines width indent s).length - 1 ∧
      (∀ c ∈ seps, isWs c = true) ∧ s = unjoin indent.length (iterLines width indent s) seps := by
  obtain ⟨seps, tr, h1, h2, h3, _, _, h6⟩ := C19_content width indent s
  rw [h6 hind, List.append_nil] at h3
  exact ⟨seps, h1, h2, h3⟩

/-- a non-trivial instance: three lines, separators blank and tab -/
theorem C19_content_exact_nonvacuous :
    iterLines 9 "  ".toList "01234 6789\t12345".toList
      = ["01234".toList, "  6789".toList, "  12345".toList] ∧
    "01234 6789\t12345".toList
      = unjoin 2 ["01234".toList, "  6789".toList, "  12345".toList] [' ', '\t'] := by
  decide +kernel

/-- The `trail` of `C19_content` cannot be dropped for the empty indent: the final blank of
`'aaaa '` is not in any line. -/
theorem C19_content_trail_needed :
    iterLines 3 [] "aaaa ".toList = ["aaaa".toList] ∧
    ∀ seps : List Char, "aaaa ".toList ≠ unjoin 0 ["aaaa".toList] seps := by
  refine ⟨by decide +kernel, ?_⟩
  intro seps h
  have := congrArg List.length h
  simp [unjoin] at this

/-- End to end, on the string `wrap` returns (white-space indent): the non-white-space
characters of the output are exactly those of the text, in the same order – wrapping never
loses, duplicates or alters a non-white-space character. -/
theorem C19_content_output (width : Int) (indent s : Str) (hind : ∀ c ∈ indent, isWs c = true) :
    nonWs (wrap width indent s) = nonWs s := by
  have hstrip : ((iterLines width indent s).map rstrip).map nonWs = (iterLines width indent s).map nonWs := by
    simp only [List.map_map]
    exact List.map_congr_left (fun l _ => nonWs_stripped (rstrip_spec l))
  rw [wrap, nonWs_joinWith_nl, hstrip]
  rcases iterLines_content width indent s with ⟨h1, h2⟩ | ⟨l, rest, seps, tr, hL, hsl, hsw, htw, _, _, _, hs⟩
  · rw [h1, h2]; rfl
  · have hp : ∀ l' ∈ rest, indent <+: l' := by
      intro l' hl'
      have := iterLines_all_prefix width indent s
      rcases Classical.em ((s.length : Int) > width) with hl | hl
      · cases hb : findBreak width indent s with
        | none => rw [iterLines_none hl hb] at hL; injection hL with _ h; subst h; simp at hl'
        | some p =>
          rw [iterLines_some hl hb] at hL
          injection hL with _ h
          exact iterLines_all_prefix width indent _ (List.prefix_append _ _) l' (h ▸ hl')
      · rw [iterLines_short hl] at hL
        split at hL
        · cases hL
        · injection hL with _ h; subst h; simp at hl'
    conv => rhs; rw [hs]
    rw [hL, nonWs_append, nonWs_append, nonWs_glue hind seps rest hsl hsw hp, nonWs_of_all_ws htw]
    simp

theorem C19_content_output_nonvacuous :
    wrap 9 "  ".toList "01234 6789\t12345 ".toList = "01234\n  6789\n  12345".toList ∧
    nonWs "01234\n  6789\n  12345".toList = "01234678912345".toList := by
  decide +kernel

/-! ### breaks -/

/-- Lines are broken only at white space: whenever a line `l` is followed by another line, the
text is `l ++ [c] ++ t` for a white-space character `c` – the only character the break
consumes – and the remaining lines are exactly the lines of `indent ++ t`.  Applied again to
`indent ++ t` this describes every break of the output. -/
theorem C19_breaks_at_ws (width : Int) (indent s l l' : Str) (rest : List Str)
    (h : iterLines width indent s = l :: l' :: rest) :
    ∃ c t, isWs c = true ∧ s = l ++ c :: t ∧ iterLines width indent (indent ++ t) = l' :: rest := by
  rcases Classical.em ((s.length : Int) > width) with hl | hl
  · cases hb : findBreak width indent s with
    | none => rw [iterLines_none hl hb] at h; simp at h
    | some p =>
      rw [iterLines_some hl hb] at h
      injection h with h1 h2
      obtain ⟨c, hc, hsplit⟩ := (findBreak_some hb).2.1.split
      exact ⟨c, s.drop (p + 1), hc, by rw [← h1]; exact hsplit, h2⟩
  · rw [iterLines_short hl] at h
    split at h <;> simp at h

theorem C19_breaks_at_ws_nonvacuous :
    iterLines 9 "  ".toList "01234 6789 12345".toList
      = "01234".toList :: "  6789".toList :: ["  12345".toList] := by
  decide +kernel

/-- No word is split, lost, duplicated or altered (white-space indent): the words of the text
are the words of the lines, line after line; the same holds for the returned string. -/
theorem C19_words (width : Int) (indent s : Str) (hind : ∀ c ∈ indent, isWs c = true) :
    ((iterLines width indent s).map words).flatten = words s ∧
    words (wrap width indent s) = words s := by
  have hstrip : ((iterLines width indent s).map rstrip).map words = (iterLines width indent s).map words := by
    simp only [List.map_map]
    exact List.map_congr_left (fun l _ => words_stripped (rstrip_spec l))
  have main : ((iterLines width indent s).map words).flatten = words s := by
    rcases iterLines_content width indent s with ⟨h1, h2⟩ | ⟨l, rest, seps, tr, hL, hsl, hsw, htw, _, _, _, hs⟩
    · rw [h1, h2]; rfl
    · have hp : ∀ l' ∈ rest, indent <+: l' := by
        intro l' hl'
        rcases Classical.em ((s.length : Int) > width) with hl | hl
        · cases hb : findBreak width indent s with
          | none => rw [iterLines_none hl hb] at hL; injection hL with _ h; subst h; simp at hl'
          | some p =>
            rw [iterLines_some hl hb] at hL
            injection hL with _ h
            exact iterLines_all_prefix width indent _ (List.prefix_append _ _) l' (h ▸ hl')
        · rw [iterLines_short hl] at hL
          split at hL
          · cases hL
          · injection hL with _ h; subst h; simp at hl'
      conv => rhs; rw [hs]
      rw [hL, words_append_all_ws _ htw, words_glue hind seps rest l hsl hsw hp]
      simp
  exact ⟨main, by rw [wrap, words_joinWith_nl, hstrip, main]⟩

theorem C19_words_nonvacuous :
    words (wrap 3 "  ".toList " a b\tc".toList) = ["a".toList, "b".toList, "c".toList] ∧
    wrap 3 "  ".toList " a b\tc".toList = " a b\n  c".toList := by
  decide +kernel

/-! ### indent -/

/-- Every continuation line starts with the indent.  For the emitted (right-stripped) lines:
an emitted continuation line starts with the indent, or – when nothing but white space followed
the indent – it is a prefix of the indent, i.e. EMPTY for a white-space indent. -/
theorem C19_indent (width : Int) (indent s : Str) :
    (∀ l ∈ (iterLines width indent s).tail, indent <+: l) ∧
    (∀ e ∈ ((iterLines width indent s).map rstrip).tail, indent <+: e ∨ e <+: indent) ∧
    ((∀ c ∈ indent, isWs c = true) →
      ∀ e ∈ ((iterLines width indent s).map rstrip).tail, indent <+: e ∨ e = []) := by
  have h1 : ∀ l ∈ (iterLines width indent s).tail, indent <+: l := by
    intro l hl
    rcases Classical.em ((s.length : Int) > width) with hlen | hlen
    · cases hb : findBreak width indent s with
      | none => rw [iterLines_none hlen hb] at hl; simp at hl
      | some p =>
        rw [iterLines_some hlen hb] at hl
        exact iterLines_all_prefix width indent _ (List.prefix_append _ _) l hl
    · rw [iterLines_short hlen] at hl
      split at hl <;> simp at hl
  have h2 : ∀ e ∈ ((iterLines width indent s).map rstrip).tail, indent <+: e ∨ e <+: indent := by
    intro e he
    rw [← List.map_tail] at he
    obtain ⟨l, hl, rfl⟩ := List.mem_map.1 he
    exact List.prefix_or_prefix_of_prefix (h1 l hl) (rstrip_prefix l)
  refine ⟨h1, h2, ?_⟩
  intro hind e he
  rcases h2 e he with h | h
  · exact Or.inl h
  · right
    -- a prefix of a white-space string that does not end in white space is empty
    rw [← List.map_tail] at he
    obtain ⟨l, _, rfl⟩ := List.mem_map.1 he
    have hlast := (rstrip_spec l).2
    cases hg : (rstrip l).getLast? with
    | none => exact List.getLast?_eq_none_iff.1 hg
    | some c =>
      have hc := hlast c hg
      have hmem : c ∈ indent := h.subset (List.mem_of_getLast? hg)
      rw [hind c hmem] at hc
      cases hc

theorem C19_indent_nonvacuous :
    (iterLines 3 "  ".toList "aaaa   bbbb".toList).tail = ["   ".toList, "  bbbb".toList] ∧
    ((iterLines 3 "  ".toList "aaaa   bbbb".toList).map rstrip).tail = [[], "  bbbb".toList] := by
  decide +kernel

/-! ### width -/

/-- A yielded line longer than `width` has no legal break position (no white space at any
position `q` with `|indent| < q ≤ width`); equivalently every line that has a legal break
position has length ≤ `width`.  The same holds for the emitted (right-stripped) lines. -/
theorem C19_width (width : Int) (indent s : Str) :
    (∀ l ∈ iterLines width indent s, (l.length : Int) > width → ∀ q, ¬ LegalBreak width indent l q) ∧
    (∀ l ∈ iterLines width indent s, (∃ q, LegalBreak width indent l q) → (l.length : Int) ≤ width) ∧
    (∀ e ∈ (iterLines width indent s).map rstrip, (e.length : Int) > width → ∀ q, ¬ LegalBreak width indent e q) ∧
    (∀ e ∈ (iterLines width indent s).map rstrip, (∃ q, LegalBreak width indent e q) → (e.length : Int) ≤ width) := by
  have h1 : ∀ l ∈ iterLines width indent s, (l.length : Int) > width → ∀ q, ¬ LegalBreak width indent l q := by
    refine iterLines_induct (w := width) (ind := indent)
      (fun _ L => ∀ l ∈ L, (l.length : Int) > width → ∀ q, ¬ LegalBreak width indent l q) ?_ ?_ ?_ s
    · intro s hs l hl hlen
      split at hl
      · simp at hl
      · simp only [List.mem_singleton] at hl; subst hl; exact absurd hlen hs
    · intro s _ hb l hl _ q ⟨hq1, _, hq3⟩
      simp only [List.mem_singleton] at hl; subst hl
      have := findBreak_none hb q hq3
      omega
    · intro s p _ hb ih l hl hlen q ⟨hq1, hq2, hq3⟩
      simp only [List.mem_cons] at hl
      rcases hl with hl | hl
      · subst hl
        obtain ⟨_, hws, h3, _⟩ := findBreak_some hb
        have hplt := hws.lt
        have hlp : (s.take p).length = p := by simp only [List.length_take]; omega
        obtain ⟨hqp, hqs⟩ := WsAt_take.1 hq3
        have := h3 q hq1 hqp hqs
        omega
      · exact ih l hl hlen q ⟨hq1, hq2, hq3⟩
  have h3 : ∀ e ∈ (iterLines width indent s).map rstrip, (e.length : Int) > width → ∀ q, ¬ LegalBreak width indent e q := by
    intro e he hlen q ⟨hq1, hq2, hq3⟩
    obtain ⟨l, hl, rfl⟩ := List.mem_map.1 he
    have hp := rstrip_prefix l
    have hle : (rstrip l).length ≤ l.length := hp.length_le
    exact h1 l hl (by omega) q ⟨hq1, hq2, WsAt_prefix hp hq3⟩
  refine ⟨h1, ?_, h3, ?_⟩
  · intro l hl ⟨q, hq⟩
    rcases Classical.em ((l.length : Int) ≤ width) with h | h
    · exact h
    · exact absurd hq (h1 l hl (by omega) q)
  · intro e he ⟨q, hq⟩
    rcases Classical.em ((e.length : Int) ≤ width) with h | h
    · exact h
    · exact absurd hq (h3 e he (by omega) q)

/-- The width clause in its strongest form: a yielded line longer than `width` contains no
white space behind the indent AT ALL (not only none within the width) — it could not have been
broken anywhere: the line ends at the first white space after the over-long word. -/
theorem C19_width_no_break_point (width : Int) (indent s : Str) :
    ∀ l ∈ iterLines width indent s, (l.length : Int) > width →
      ∀ q, indent.length < q → ¬ WsAt l q := by
  refine iterLines_induct (w := width) (ind := indent)
    (fun _ L => ∀ l ∈ L, (l.length : Int) > width → ∀ q, indent.length < q → ¬ WsAt l q) ?_ ?_ ?_ s
  · intro s hs l hl hlen
    split at hl
    · simp at hl
    · simp only [List.mem_singleton] at hl; subst hl; exact absurd hlen hs
  · intro s _ hb l hl _ q hq1 hq3
    simp only [List.mem_singleton] at hl; subst hl
    have := findBreak_none hb q hq3
    omega
  · intro s p _ hb ih l hl hlen q hq1 hq3
    simp only [List.mem_cons] at hl
    rcases hl with hl | hl
    · subst hl
      obtain ⟨_, hws, h3, _⟩ := findBreak_some hb
      have hplt := hws.lt
      have hlp : (s.take p).length = p := by simp only [List.length_take]; omega
      obtain ⟨hqp, hqs⟩ := WsAt_take.1 hq3
      have := h3 q hq1 hqp hqs
      omega
    · exact ih l hl hlen q hq1 hq3

/-- an over-long word followed by two more words: the long word gets a line of its own -/
theorem C19_width_no_break_point_nonvacuous :
    iterLines 3 "  ".toList "aaaa b c".toList = ["aaaa".toList, "  b".toList, "  c".toList] := by
  decide +kernel

/-- both kinds of line occur: an over-long line without a legal break (the only white space of
`aa bb` is inside the region `q ≤ |indent|`), and a line with a legal break inside the width -/
theorem C19_width_nonvacuous :
    iterLines 3 "  ".toList "aa bb c".toList = ["aa bb".toList, "  c".toList] ∧
    iterLines 11 "  ".toList "01234 6789 12345".toList = ["01234 6789".toList, "  12345".toList] ∧
    LegalBreak 11 "  ".toList "01234 6789".toList 5 := by
  refine ⟨by decide +kernel, by decide +kernel, by decide, by decide, ' ', by decide, by decide⟩

/-- Lines are as long as possible (the docstring's promise): when the first line `l` is followed
by another line, `l` ends just before a white-space character of the text, and the next place
where it could have ended instead – the next white space, or the end of the text – lies beyond
`width`.  By `C19_breaks_at_ws` the same holds for every later line with respect to
`indent ++ remainder`. -/
theorem C19_greedy (width : Int) (indent s l l' : Str) (rest : List Str)
    (h : iterLines width indent s = l :: l' :: rest) :
    l = s.take l.length ∧ WsAt s l.length ∧ indent.length < l.length ∧
    ∀ q, l.length < q → (WsAt s q ∨ q = s.length) → width < (q : Int) := by
  rcases Classical.em ((s.length : Int) > width) with hl | hl
  · cases hb : findBreak width indent s with
    | none => rw [iterLines_none hl hb] at h; simp at h
    | some p =>
      rw [iterLines_some hl hb] at h
      injection h with h1 _
      obtain ⟨hip, hws, _, h4⟩ := findBreak_some hb
      have hplt := hws.lt
      have hlp : l.length = p := by rw [← h1]; simp only [List.length_take]; omega
      rw [hlp]
      refine ⟨h1.symm, hws, hip, ?_⟩
      intro q hq hor
      rcases hor with hor | hor
      · exact h4 q hq hor
      · omega
  · rw [iterLines_short hl] at h
    split at h <;> simp at h

theorem C19_greedy_nonvacuous :
    iterLines 11 "  ".toList "01234 6789 12345".toList
      = "01234 6789".toList :: "  12345".toList :: [] ∧
    WsAt "01234 6789 12345".toList 10 := by
  exact ⟨by decide +kernel, ' ', by decide, by decide⟩

/-- Breaks only happen at legal positions: every line that is followed by another line is
longer than the indent (the break position lies strictly behind the indent region), so the
loop of `iter_lines` makes progress – the fact termination rests on. -/
theorem C19_legal_break (width : Int) (indent s : Str) :
    ∀ l ∈ (iterLines width indent s).dropLast, indent.length < l.length := by
  refine iterLines_induct (w := width) (ind := indent)
    (fun _ L => ∀ l ∈ L.dropLast, indent.length < l.length) ?_ ?_ ?_ s
  · intro s _ l hl; split at hl <;> simp at hl
  · intro s _ _ l hl; simp at hl
  · intro s p _ hb ih l hl
    obtain ⟨hip, hws, _, _⟩ := findBreak_some hb
    have hplt := hws.lt
    cases hL : iterLines width indent (indent ++ s.drop (p + 1)) with
    | nil => rw [hL] at hl; simp at hl
    | cons b r =>
      rw [hL] at hl ih
      simp only [List.dropLast_cons_cons, List.mem_cons] at hl
      rcases hl with hl | hl
      · subst hl; simp only [List.length_take]; omega
      · exact ih l hl

/-! ### rstrip -/

/-- The returned string is the `"\n"`-join of the emitted lines; emitted line number `i` is
yielded line number `i` with trailing white space removed and nothing else, and no emitted
line ends in white space. -/
theorem C19_rstrip (width : Int) (indent s : Str) :
    ∃ emitted : List Str, wrap width indent s = joinWith ['\n'] emitted ∧
      emitted.length = (iterLines width indent s).length ∧
      ∀ i (h₁ : i < (iterLines width indent s).length) (h₂ : i < emitted.length),
        StrippedOf (iterLines width indent s)[i] emitted[i] := by
  refine ⟨(iterLines width indent s).map rstrip, rfl, by simp, ?_⟩
  intro i h₁ h₂
  simp only [List.getElem_map]
  exact rstrip_spec _

theorem C19_rstrip_nonvacuous :
    StrippedOf "ab \t ".toList "ab".toList ∧ rstrip "ab \t ".toList = "ab".toList := by
  refine ⟨⟨⟨" \t ".toList, by decide, by decide⟩, ?_⟩, by decide⟩
  intro c hc
  have : c = 'b' := by
    have h : "ab".toList.getLast? = some 'b' := by decide
    rw [h] at hc; injection hc with hc; exact hc.symm
  subst this; decide

/-! ### short texts, termination -/

/-- A text that fits into `width` comes back as a single line (no line for the empty text),
and `wrap` returns it right-stripped. -/
theorem C19_short_identity (width : Int) (indent s : Str) (h : (s.length : Int) ≤ width) :
    iterLines width indent s = (if s.isEmpty then [] else [s]) ∧ wrap width indent s = rstrip s := by
  have hl : ¬ (s.length : Int) > width := by omega
  refine ⟨iterLines_short hl, ?_⟩
  rw [wrap, iterLines_short hl]
  split
  · rename_i he
    have : s = [] := by simpa using he
    subst this
    rfl
  · rfl

theorem C19_short_identity_nonvacuous :
    (("ab c  ".toList.length : Nat) : Int) ≤ 6 ∧ wrap 6 "  ".toList "ab c  ".toList = "ab c".toList := by
  decide +kernel

/-- `iter_lines` terminates for every text, width and indent.  Termination itself is the
well-foundedness proof inside the definition of `iterLines` (`Model/Wrap.lean`: the next string
`indent + s[p+1:]` is shorter than `s` because `find_break` only returns positions with
`|indent| < p < |s|`, lemma `findBreak_bounds`); stated as a bound: at most `|s| + 1` lines. -/
theorem C19_terminates (width : Int) (indent s : Str) :
    (iterLines width indent s).length ≤ s.length + 1 := by
  refine iterLines_induct (w := width) (ind := indent) (fun s L => L.length ≤ s.length + 1) ?_ ?_ ?_ s
  · intro s _; split <;> simp
  · intro s _ _; simp
  · intro s p _ hb ih
    have := findBreak_bounds hb
    simp only [List.length_append, List.length_drop, List.length_cons] at ih ⊢
    omega


/-! ### the blank continuation line (recorded finding `C19-blank-continuation-line`)

"Continuation lines are indented by two spaces" and "trailing white space is removed" cannot both
hold for a continuation line whose text is white space only; `wrap` emits such a line EMPTY
(BibTeX drops it).  The clause is therefore proved in the restricted form `_partial` (every
continuation line that holds a non-white-space character keeps the indent; the others come out
empty) and refuted in its unrestricted form on concrete witnesses (`_neg`): one at width 3 and one
with the default arguments (a 79-column word followed by two blanks gives a second, empty line). -/

theorem C19_indent_emitted_partial (width : Int) (indent s : Str)
    (hind : ∀ c ∈ indent, isWs c = true) :
    ∀ l ∈ (iterLines width indent s).tail,
      ((∃ c ∈ l, isWs c = false) → indent <+: rstrip l ∧ rstrip l ≠ []) ∧
      ((∀ c ∈ l, isWs c = true) → rstrip l = []) := by
  intro l hl
  have hp := (C19_indent width indent s).1 l hl
  refine ⟨fun hne => ⟨rstrip_keeps_indent hind hp hne, ?_⟩, (rstrip_eq_nil_iff l).2⟩
  intro h
  obtain ⟨c, hc, hcw⟩ := hne
  rw [(rstrip_eq_nil_iff l).1 h c hc] at hcw
  cases hcw

theorem C19_indent_emitted_partial_nonvacuous :
    (iterLines 9 "  ".toList "01234 6789\t12345".toList).tail = ["  6789".toList, "  12345".toList] ∧
    rstrip "  6789".toList = "  6789".toList := by
  decide +kernel

/-- The unrestricted clause "every emitted continuation line starts with the indent" is false of
the code: `wrap('aaaa   bbbb', 3)` = `'aaaa\n\n  bbbb'`, and with the default arguments a text of
79 non-blank characters followed by two blanks comes back with a second, empty line. -/
theorem C19_indent_emitted_neg :
    (¬ ∀ (width : Int) (indent s : Str), (∀ c ∈ indent, isWs c = true) →
        ∀ e ∈ ((iterLines width indent s).map rstrip).tail, indent <+: e) ∧
    wrap 3 "  ".toList "aaaa   bbbb".toList = "aaaa\n\n  bbbb".toList ∧
    wrapDefault (List.replicate 79 'x' ++ "  ".toList) = List.replicate 79 'x' ++ ['\n'] := by
  refine ⟨?_, by decide +kernel, by decide +kernel⟩
  intro h
  have h1 := h 3 "  ".toList "aaaa   bbbb".toList (by decide) []
  have h2 : ((iterLines 3 "  ".toList "aaaa   bbbb".toList).map rstrip).tail = [[], "  bbbb".toList] := by
    decide +kernel
  rw [h2] at h1
  have h3 := h1 (by simp)
  have := h3.length_le
  simp at this

/-! ### BibTeX-engine output: width 79, indent two blanks, `newline$` -/

/-- The statement of C19 for the call the engine makes, `wrap(text)` = `wrap(text, 79, '  ')`:
with `L` the lines of `iter_lines` and `E` the emitted (right-stripped) lines,
the returned string is the `"\n"`-join of `E`; the text is `L` glued back together with one
white-space character per break and the two indent characters of every continuation line removed;
the non-white-space characters and the words of the output are those of the text; an emitted
continuation line starts with two blanks or is empty (`C19_indent_emitted_partial`: empty only
when its text was white space only); a line longer than 79 columns has no white space behind
column 2; no emitted line ends in white space. -/
theorem C19_default_lines (T : Str) :
    wrapDefault T = joinWith ['\n'] ((iterLines 79 [' ', ' '] T).map rstrip) ∧
    (∃ seps : List Char, seps.length = (iterLines 79 [' ', ' '] T).length - 1 ∧
      (∀ c ∈ seps, isWs c = true) ∧ T = unjoin 2 (iterLines 79 [' ', ' '] T) seps) ∧
    nonWs (wrapDefault T) = nonWs T ∧ words (wrapDefault T) = words T ∧
    (∀ e ∈ ((iterLines 79 [' ', ' '] T).map rstrip).tail, [' ', ' '] <+: e ∨ e = []) ∧
    (∀ e ∈ (iterLines 79 [' ', ' '] T).map rstrip, e.length > 79 → ∀ q, 2 < q → ¬ WsAt e q) ∧
    (∀ e ∈ (iterLines 79 [' ', ' '] T).map rstrip, NoTrailingWs e) := by
  have hind : ∀ c ∈ [' ', ' '], isWs c = true := by decide
  refine ⟨rfl, C19_content_exact 79 [' ', ' '] T (by simp), C19_content_output 79 _ T hind,
    (C19_words 79 _ T hind).2, (C19_indent 79 _ T).2.2 hind, ?_, ?_⟩
  · intro e he hlen q hq hws
    obtain ⟨l, hl, rfl⟩ := List.mem_map.1 he
    have hp := rstrip_prefix l
    have hle : (rstrip l).length ≤ l.length := hp.length_le
    exact C19_width_no_break_point 79 [' ', ' '] T l hl (by omega) q hq (WsAt_prefix hp hws)
  · intro e he
    obtain ⟨l, _, rfl⟩ := List.mem_map.1 he
    exact (rstrip_spec l).2

theorem C19_default_lines_nonvacuous :
    (iterLines 79 [' ', ' '] (List.replicate 78 'a' ++ ' ' :: List.replicate 3 'b' ++ '\t' :: List.replicate 90 'c')).map rstrip
      = [List.replicate 78 'a', "  bbb".toList, ' ' :: ' ' :: List.replicate 90 'c'] := by
  decide +kernel

/-- The physical lines of BibTeX-engine output.  The interpreter model executes `write$` as
`Interpreter.output` (append the piece to the buffer) and `newline$` as `Interpreter.newline`:
the wrapped concatenation of the buffered pieces and a line feed are appended to the output
lines and the buffer is EMPTIED — so every `newline$` emits `wrap(text, 79, '  ')` of exactly
what was written since the previous one, for which `C19_default_lines` holds. -/
theorem C19_engine_newline (f : Nat) (s : Interp.St) :
    Interp.runBuiltin (f + 1) .newline s =
      .ok { s with lines := (newlineStep s.lines s.buffer).1, buffer := (newlineStep s.lines s.buffer).2,
                   trace := s.trace ++ [.newline] } ∧
    (newlineStep s.lines s.buffer).1 = s.lines ++ [wrapDefault s.buffer.flatten, ['\n']] ∧
    (newlineStep s.lines s.buffer).2 = [] ∧
    (∀ (x : Str) (r : List Interp.Val),
      Interp.runBuiltin (f + 1) .write { s with stack := .str x :: r } =
        .ok { s with stack := r, buffer := outputStep s.buffer x, trace := s.trace ++ [.write x] }) :=
  ⟨rfl, rfl, rfl, fun _ _ => rfl⟩

/-- A program that writes the pieces of `ls[0]`, calls `newline$`, writes the pieces of `ls[1]`,
calls `newline$`, …: its output is, line group by line group, the wrapped concatenation of the
pieces followed by a line feed (nothing of one group leaks into the next: the buffer is cleared);
the concatenation of all writes is preserved up to white space, and no word is split or merged —
neither inside a group nor across a `newline$`. -/
theorem C19_engine_output (ls : List (List Str)) :
    engineOutput ls =
      (ls.map fun pieces =>
        joinWith ['\n'] ((iterLines 79 [' ', ' '] pieces.flatten).map rstrip) ++ ['\n']).flatten ∧
    nonWs (engineOutput ls) = nonWs ls.flatten.flatten ∧
    words (engineOutput ls) = (ls.map fun pieces => words pieces.flatten).flatten := by
  refine ⟨engineOutput_eq ls, ?_, ?_⟩
  · induction ls with
    | nil => rfl
    | cons p ps ih =>
      have hnl : nonWs ['\n'] = [] := by decide
      rw [engineOutput_cons, show (wrapDefault p.flatten ++ '\n' :: engineOutput ps)
        = wrapDefault p.flatten ++ (['\n'] ++ engineOutput ps) from rfl, nonWs_append, nonWs_append, hnl,
        ih, (C19_default_lines p.flatten).2.2.1]
      simp [nonWs_append]
  · induction ls with
    | nil => rfl
    | cons p ps ih =>
      have hnl : isWs '\n' = true := by decide
      rw [engineOutput_cons, words_ws _ _ hnl, ih, (C19_default_lines p.flatten).2.2.2.1]
      simp

/-- two `newline$` groups with several pieces each, then an empty one -/
theorem C19_engine_output_nonvacuous :
    engineOutput [["ab".toList, " c".toList], [], ["d ".toList, [], "e".toList]] = "ab c\n\nd e\n".toList := by
  decide +kernel

end Pybtex.Props
