/-
C18 (extension) — `pybtex/errors.py` operation by operation with nested `capture()` blocks, and the
tie of the C18 world's `find_plugin` to the model of `pybtex/plugin/__init__.py` (C17, `Model/IO.lean`).

Property theorems only.  Models: `Model/ErrorsStack.lean` (the stack of `capture()` frames; nothing in
its shape restores anything), `Model/World.lean`, `Model/IO.lean` §2; lemmas: `Lemmas/ErrorsStack.lean`.
-/
import PybtexModel.Lemmas.ErrorsStack
import PybtexModel.Lemmas.World
import PybtexModel.Model.IO
import PybtexModel.Gen.Plugins
import PybtexModel.Gen.StyleMacros
import PybtexModel.Gen.C18Consts

namespace Pybtex.Props
open Pybtex Pybtex.Proc

/-! ## `with errors.capture() as errs: body`, nested to any depth, entered in ANY state -/

/-- A `capture()` block whose body is ANY sequence of `report_error`, `set_strict_mode` and further,
properly nested `capture()` blocks (hypothesis: the body closes exactly the blocks it opens), entered in
ANY state of the module — inside other `capture()` blocks or not, strict or not, whatever `error_code`
is: on leaving, `captured_errors` is the very value it had on entry and the stack of open blocks is as
before; `error_code`, the month table, the registry and both name caches are untouched; `strict` is
what the body's last `set_strict_mode` said (the block does not put it back: the code does not);
the list handed out is exactly the reports the body made outside its inner blocks, as read off the
TEXT of the body; and no operation of the block raised or printed anything. -/
theorem C18_capture_restores (s : EState) (body : List EOp) (hb : finalDepth 0 body = some 0) :
    (erun s (.enter :: body ++ [.exit])).frames = s.frames ∧
    (erun s (.enter :: body ++ [.exit])).w.captured = s.w.captured ∧
    (erun s (.enter :: body ++ [.exit])).w.errorCode = s.w.errorCode ∧
    (erun s (.enter :: body ++ [.exit])).w.months = s.w.months ∧
    (erun s (.enter :: body ++ [.exit])).w.plugins = s.w.plugins ∧
    (erun s (.enter :: body ++ [.exit])).w.splitCache = s.w.splitCache ∧
    (erun s (.enter :: body ++ [.exit])).w.fmtCache = s.w.fmtCache ∧
    (erun s (.enter :: body ++ [.exit])).w.strict = lastStrict s.w.strict body ∧
    (eresults s (.enter :: body ++ [.exit])).getLast? = some (.collected (topReports 0 body)) ∧
    (∀ r ∈ eresults s (.enter :: body ++ [.exit]), r.quiet = true) := by
  let s1 : EState := { w := { s.w with captured := some [] }, frames := s.w.captured :: s.frames }
  obtain ⟨h1, h2, h3, h4, h5⟩ :=
    erun_closes body 0 s1 [] (s.w.captured :: s.frames) [] [] hb rfl rfl rfl rfl
  have hrun : erun s (.enter :: body ++ [.exit]) = (estep (erun s1 body) .exit).1 := by
    show erun s1 (body ++ [.exit]) = _
    rw [erun_append]; rfl
  have hres : eresults s (.enter :: body ++ [.exit]) =
      ERes.none :: (eresults s1 body ++ [(estep (erun s1 body) .exit).2]) := by
    show ERes.none :: eresults s1 (body ++ [.exit]) = _
    rw [eresults_append]; rfl
  have hstep : estep (erun s1 body) .exit =
      ({ w := { (erun s1 body).w with captured := s.w.captured }, frames := s.frames },
       .collected (topReports 0 body)) := by
    simp only [estep, h1, h2, List.nil_append]
  rw [hrun, hres, hstep]
  refine ⟨rfl, rfl, h4.errorCode, h4.months, h4.plugins, h4.splitCache, h4.fmtCache, h3, ?_, ?_⟩
  · show ((ERes.none :: eresults s1 body) ++ [ERes.collected (topReports 0 body)]).getLast? = _
    simp only [List.getLast?_append, List.getLast?_singleton, Option.some_or]
  · intro r hr
    rcases List.mem_cons.1 hr with hr | hr
    · subst hr; rfl
    · rcases List.mem_append.1 hr with hr | hr
      · exact h5 r hr
      · simp only [List.mem_singleton] at hr; subst hr; rfl

/-- … hence what a block hands out does not depend on the state it is entered in: two processes in
ARBITRARY states of `pybtex/errors.py` (and of everything else) collect the same list. -/
theorem C18_capture_collects_independent (s1 s2 : EState) (body : List EOp)
    (hb : finalDepth 0 body = some 0) :
    (eresults s1 (.enter :: body ++ [.exit])).getLast? = (eresults s2 (.enter :: body ++ [.exit])).getLast? :=
  ((C18_capture_restores s1 body hb).2.2.2.2.2.2.2.2.1).trans
    ((C18_capture_restores s2 body hb).2.2.2.2.2.2.2.2.1).symm

/-- a body with a report, a nested block with its own report, a change of the strict mode and a second
report, entered (a) at top level in strict mode and (b) inside another block after a warning: the
hypothesis holds, both collect `[e1, e3]`, the inner block collects `[e2]`; in (b) the outer list and
`error_code = 2` are as before -/
theorem C18_capture_restores_nonvacuous :
    let e1 : Err := .other "e1".toList
    let e2 : Err := .invalidName "A, B, C, D".toList
    let e3 : Err := .noSuchName 3 "A and B".toList
    let body : List EOp := [.report e1, .enter, .report e2, .exit, .setStrict false, .report e3]
    let sb := erun EState.fresh [.setStrict false, .report e2, .enter, .report e3]
    finalDepth 0 body = some 0 ∧
    eresults EState.fresh (.enter :: body ++ [.exit]) =
      [.none, .none, .none, .none, .collected [e2], .none, .none, .collected [e1, e3]] ∧
    (eresults sb (.enter :: body ++ [.exit])).getLast? = some (.collected [e1, e3]) ∧
    sb.w.errorCode = 2 ∧ sb.w.captured = some [e3] ∧ sb.frames = [none] ∧
    (erun sb (.enter :: body ++ [.exit])).w.captured = some [e3] ∧
    (erun sb (.enter :: body ++ [.exit])).w.errorCode = 2 ∧
    eresults EState.fresh [.report e1, .setStrict false, .report e1] = [.raised e1, .none, .warned e1] := by
  decide +kernel

/-- What the module did BEFORE the committed repair of `capture()` (leaving set `captured_errors = None`
instead of the value seen on entry): leaving an inner block switched the outer one off — the next
report of the outer body is raised instead of collected.  `estepOld` is that behaviour; the statement
of `C18_capture_restores` fails for it on a three-operation body (`[enter, exit, report e]`: a raise inside the block). -/
theorem C18_capture_restores_neg_unrestored :
    let estepOld (s : EState) (op : EOp) : EState × ERes :=
      match op, s.frames with
      | .exit, _ :: fr => ({ w := { s.w with captured := none }, frames := fr },
                           match s.w.captured with | some l => .collected l | none => .invalid)
      | op, _ => estep s op
    let runOld (s : EState) (ops : List EOp) : EState × List ERes :=
      ops.foldl (fun acc op => ((estepOld acc.1 op).1, acc.2 ++ [(estepOld acc.1 op).2])) (s, [])
    let e : Err := .other "e".toList
    (runOld EState.fresh [.enter, .enter, .exit, .report e]).2 =
      [.none, .none, .collected [], .raised e] ∧
    eresults EState.fresh [.enter, .enter, .exit, .report e, .exit] =
      [.none, .none, .collected [], .none, .collected [e]] := by
  decide +kernel

/-! ## the single-call wrappers of `Model/World.lean` are blocks of the stack machine -/

/-- [model wiring] `Call.capture c` of the World model — on which every `C18_*` theorem about histories
rests — is the stack machine's `enter; c; exit` around the world transformer of `c`, for ANY stack of
open blocks, provided the global is still a list when `c` returns (second conjunct: it is, for every
call, because nothing but `capture()` itself ever assigns `captured_errors`); `Call.nonstrict c` is
`set_strict_mode(False); c; set_strict_mode(<as before>)`. -/
theorem C18_world_capture_is_stack_block (F : Fns) (w : World) (fr : List (Option (List Err))) (c : Call) :
    (∀ l, (step F { w with captured := some [] } c).1.captured = some l →
      let s1 := (estep ⟨w, fr⟩ .enter).1
      let r := step F s1.w c
      let s2 := estep ⟨r.1, s1.frames⟩ .exit
      (step F w (.capture c)).1 = s2.1.w ∧ s2.1.frames = fr ∧
      (step F w (.capture c)).2 = .captured r.2 l ∧ s2.2 = .collected l) ∧
    (c.isPublic = true → ∃ l, (step F { w with captured := some [] } c).1.captured = some l) ∧
    (let s1 := (estep ⟨w, fr⟩ (.setStrict false)).1
     let r := step F s1.w c
     (step F w (.nonstrict c)).1 = (estep ⟨r.1, fr⟩ (.setStrict w.strict)).1.w ∧
     (step F w (.nonstrict c)).2 = r.2) := by
  refine ⟨fun l hl => ?_, fun hc => ?_, ⟨rfl, rfl⟩⟩
  · simp only [estep, step, hl]
    exact ⟨trivial, trivial, trivial, trivial⟩
  · have hf := step_frame F { w with captured := some [] } c hc
    exact Option.isSome_iff_exists.1 (hf.capSome rfl)

/-! ## what a reader wants and how it spells keys, across its files -/

/-- Across ANY files one reader (filtered or not, key-less or not) goes through without raising: a key
it wanted before is still wanted (`want_entry` is monotone: the wanted set only grows), and the spelling
an entry is stored under (`get_canonical_key`) is the one of the caller's ORIGINAL citation list —
nothing read later changes it.  (These are the two oracle clauses of the op `dbhist`.) -/
theorem C18_reader_wanted_monotone (F : Fns) (persons : Bool) (w w' : World) (r r' : Reader) (ds : List Doc)
    (h : readFiles F persons w r ds = (w', .ok r')) (k : Str) :
    (wantEntry r k = true → wantEntry r' k = true) ∧ canonicalKey r' k = canonicalKey r k := by
  have g := readFiles_grows h
  refine ⟨fun hw => ?_, by simp only [canonicalKey, g.citations]⟩
  cases hr : r.wanted with
  | none => simp only [wantEntry, g.wantedNone hr]
  | some s =>
    obtain ⟨s', hs', hpre⟩ := g.wantedSome s hr
    obtain ⟨t, rfl⟩ := hpre
    simp only [wantEntry, hr, Bool.or_eq_true] at hw
    simp only [wantEntry, hs', List.contains_append, Bool.or_eq_true]
    rcases hw with hw | hw
    · exact Or.inl (Or.inl hw)
    · exact Or.inr (Or.inl hw)

/-- cited `C`; the file holds `c` (kept as `C`, refers to `p`), then `p`: `p` was not wanted before the
file and is wanted after it; `c` stays wanted; spellings as cited -/
theorem C18_reader_wanted_monotone_nonvacuous :
    let child : Cmd := .entry "misc".toList "c".toList [("crossref".toList, [.lit "p".toList])]
    let parent : Cmd := .entry "misc".toList "p".toList [("note".toList, [.lit "N".toList])]
    let r0 := newReaderWanted World.fresh ["C".toList]
    ∃ w' r', readFiles toyFns true World.fresh r0 [[child, parent]] = (w', .ok r') ∧
      wantEntry r0 "c".toList = true ∧ wantEntry r0 "p".toList = false ∧
      wantEntry r' "c".toList = true ∧ wantEntry r' "p".toList = true ∧
      canonicalKey r' "c".toList = "C".toList ∧ r'.entries.map (·.key) = ["C".toList, "p".toList] := by
  refine ⟨_, _, rfl, ?_⟩
  decide +kernel

/-! ## `find_plugin` of the C18 world is `find_plugin` of `pybtex/plugin/__init__.py` (C17's model) -/

/-- the installed entry points as the parameter `Fns.entryPoint` sees them: the name in the group, then
in the group's `.aliases` (the search order of `_load_entry_point(group, name, use_aliases=True)`) -/
def epOf (tbl : IO.Installed) : Str → Str → Option Str := fun g n =>
  match IO.installedLookup tbl g n with
  | some k => some k
  | none => IO.installedLookup tbl (g ++ ".aliases".toList) n

/-- COMPOSITION with C17: for a non-empty plug-in name in a known group, with an empty run-time
registry (hypothesis `hreg`; it is what every history of public calls leaves: second statement), the
`findPlugin` of the C18 world — with its parameter `entryPoint` instantiated by the installed table —
returns exactly what the function-level model of `find_plugin(group, name)` of C17 returns (`none` =
`PluginNotFound`); and after ANY history of public calls from a fresh interpreter this is still so. -/
theorem C18_find_plugin_is_the_code (F : Fns) (tbl : IO.Installed) (defaults : List (Str × Str))
    (hF : F.entryPoint = epOf tbl) (g : Str) (c : Char) (n : Str) (hg : (dget defaults g).isSome = true) :
    (∀ w : World, w.plugins = [] →
      findPlugin F w g (c :: n) = (IO.findPlugin tbl defaults [] g (.str (c :: n)) none).toOption) ∧
    (∀ h : List Call, (∀ c ∈ h, c.isPublic = true) →
      findPlugin F (run F World.fresh h) g (c :: n)
        = (IO.findPlugin tbl defaults [] g (.str (c :: n)) none).toOption) := by
  have key : ∀ w : World, w.plugins = [] →
      findPlugin F w g (c :: n) = (IO.findPlugin tbl defaults [] g (.str (c :: n)) none).toOption := by
    intro w hreg
    obtain ⟨d, hd⟩ := Option.isSome_iff_exists.1 hg
    simp only [findPlugin, hreg, dget, hF, epOf, IO.findPlugin, hd, IO.loadEntryPoint, if_true,
      IO.searchGroups, IO.runtimeGet]
    cases h1 : IO.installedLookup tbl g (c :: n) with
    | some k => rfl
    | none =>
      cases h2 : IO.installedLookup tbl (g ++ ".aliases".toList) (c :: n) with
      | some k => rfl
      | none => rfl
  refine ⟨key, fun h hh => key _ ?_⟩
  exact (run_frame F World.fresh h hh).plugins

/-- on the REGENERATED tables (`Gen.installedPlugins`, `Gen.defaultPlugins`: read from the running
interpreter and from `/repo` on every run): the constants the C18 model hard-codes are what the code
has — the `.bib` reader is `pybtex.database.input` / `bibtex` → `pybtex.database.input.bibtex:Parser`,
it is also the group's default; every (group, name) pair of `Gen.c18Plugins` (the table the C18 driver
answers `find_plugin` from) is an installed entry point of C17's table and vice versa for the seven
base groups; an alias (`md`) resolves, a name nobody installed does not -/
theorem C18_find_plugin_is_the_code_nonvacuous :
    epOf Gen.installedPlugins inputGroup bibtexName = some bibtexParserCls ∧
    dget Gen.defaultPlugins inputGroup = some bibtexName ∧
    (IO.findPlugin Gen.installedPlugins Gen.defaultPlugins [] inputGroup .none none).toOption = some bibtexParserCls ∧
    (Gen.c18Plugins.all fun p => (IO.installedLookup Gen.installedPlugins p.1 p.2).isSome) = true ∧
    (Gen.installedPlugins.all fun e =>
      !(dget Gen.defaultPlugins e.1).isSome || Gen.c18Plugins.contains (e.1, e.2.1)) = true ∧
    epOf Gen.installedPlugins "pybtex.backends".toList "md".toList
      = some "pybtex.backends.markdown:Backend".toList ∧
    epOf Gen.installedPlugins "pybtex.backends".toList "nosuch".toList = none := by
  decide +kernel

/-! ## constants of the model against the source text (regenerated on every run) -/

/-- [finite check on `Gen/C18Consts.lean`, which `harness/tablegen/c18.py` reads off the SOURCE TEXT of
`Parser.process_entry`, `BibliographyData.want_entry / add_entry`, `report_error` and
`CommandLine.__call__` on every run]: the key of a key-less entry is the code's format with the number
in place of `%i`; the wild card of `wantEntry` is the code's; the field whose value `addEntry` makes
wanted is the code's; a warning sets `error_code` to the code's value; a pybtex exception escaping
`main()` gives the code's exit status. -/
theorem C18_model_constants_are_the_code :
    Gen.c18UnnamedFormat.drop (Gen.c18UnnamedFormat.length - 2) = "%i".toList ∧
    unnamedKey 12 = Gen.c18UnnamedFormat.take (Gen.c18UnnamedFormat.length - 2) ++ "12".toList ∧
    wantEntry { newReaderFrom [] with wanted := some [Gen.c18WildCard] } "zz".toList = true ∧
    wantEntry { newReaderFrom [] with wanted := some ["x".toList] } "zz".toList = false ∧
    (match (addEntry World.fresh (newReaderWanted World.fresh ["c".toList])
              { key := "c".toList, type := "misc".toList, fields := [(Gen.c18CrossrefField, "p".toList)], persons := [] }).2 with
     | .ok r => r.wanted
     | .error _ => none) = some ["c".toList, "p".toList] ∧
    (report { World.fresh with strict := false } (.other [])).1.errorCode = Gen.c18WarningCode ∧
    exitStatus 0 (.raised (.other [])) = .exit Gen.c18ErrorExit := by
  decide +kernel

end Pybtex.Props
