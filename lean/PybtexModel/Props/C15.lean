/-
C15 — `.bst` source parsing recovers exactly the program that was written.

Property theorems only.  Model of the code: `Model/BstParse.lean` (+ `Model/Scanner.lean`,
`Model/Lines.lean`); what the reader has to agree with: `Spec/Bst.lean` (abstract syntax,
`print` with lay-outs, `WFProg`, `CommentAt`, the reference readings `read` / `readBad` of lexeme
sequences, `lexBad`); helper lemmas: `Lemmas/Scanner.lean`, `Lemmas/Bst*.lean`.
-/
import PybtexModel.Lemmas.BstLocatedSrc
import PybtexModel.Lemmas.BstComment
import PybtexModel.Lemmas.BstEntry
import PybtexModel.Lemmas.BstLexical
import PybtexModel.Lemmas.BstOpenGroups
import PybtexModel.Lemmas.BstEq
import PybtexModel.Lemmas.BstStream

namespace Pybtex.Props
open Pybtex Pybtex.Bst Pybtex.Scanner

/-! ### Comments -/

/-- `strip_comment` removes exactly the text from the first `%` that is outside a string literal
(= preceded by an even number of `"` on the line): it returns the line up to that position, and
the whole line when there is no such `%`.  A `%` inside a literal (odd number of `"` before it)
is never where the line is cut.  It agrees with the declarative `uncommented` of the spec. -/
theorem C15_strip_comment (l : Str) :
    stripComment l = uncommented l ∧
    (∀ k, CommentAt l k → (∀ j, j < k → ¬ CommentAt l j) → stripComment l = l.take k) ∧
    ((∀ k, ¬ CommentAt l k) → stripComment l = l) :=
  ⟨stripComment_eq_uncommented l, stripComment_cut l, stripComment_id l⟩

/-- a non-trivial instance: the `%` inside the literal stays, the second one starts the comment -/
theorem C15_strip_comment_nonvacuous :
    CommentAt "\"100%\" is% a myth".toList 9 ∧ ¬ CommentAt "\"100%\" is% a myth".toList 4 ∧
    stripComment "\"100%\" is% a myth".toList = "\"100%\" is".toList := by
  refine ⟨by decide, by decide, by rfl⟩

/-- identity on comment-free lines, and idempotent -/
theorem C15_strip_comment_id (l : Str) :
    ('%' ∉ l → stripComment l = l) ∧ stripComment (stripComment l) = stripComment l := by
  refine ⟨?_, stripComment_idem l⟩
  intro h
  apply stripComment_id
  intro k ⟨hk, _⟩
  exact h (List.mem_of_getElem? hk)

/-! ### Round trip -/

/-- **Printing any well-formed program with ANY lay-out and parsing the text back is the
identity**: names of any characters but `# " { } %` and white space (quoted or not), strings
without `"` and line breaks, integers of any sign, function literals nested to any depth,
commands spelled in any letter case; lay-out = any white space (29 code points, all line-break
characters included) and `%`-comments (ended by any line break) between any two lexemes, nothing
at all around braces, a final unterminated comment. -/
theorem C15_roundtrip (p : Program) (L : Layout) (hwf : WFProg p) :
    parseString (print p L) = .ok p :=
  parseString_print p L hwf

namespace C15ex
def prog : Program :=
  [⟨"Entry".toList, [[.name "a".toList], [], [.name "b.c".toList]]⟩,
   ⟨"FUNCTION".toList, [[.name "f".toList],
      [.int (-12), .quoted "x".toList, .str "100% {#".toList, .name ":=".toList,
       .fn [.name "+".toList, .fn [], .name "a'*".toList]]]⟩,
   ⟨"read".toList, []⟩]
def sp : GapItem := .ws ⟨' ', by decide⟩
def nlc : GapItem := .ws ⟨'\n', by decide⟩
def cr : GapItem := .ws ⟨'\r', by decide⟩
def cm : GapItem := .comment ⟨"it's \"100%".toList, by decide⟩ ⟨'\n', by decide⟩
def lay : Layout :=
  ⟨[[cm], [sp], [], [], [], [], [], [nlc], [], [cr, nlc], [sp], [], [], [cm], [], [], [], [.ws ⟨'\x0b', by decide⟩]],
   some ⟨"end \"".toList, by decide⟩⟩
end C15ex

/-- the hypothesis of `C15_roundtrip` is satisfiable by a non-trivial program, whose print-out
under a non-trivial lay-out is the expected text and parses back (evaluated by the kernel) -/
theorem C15_roundtrip_nonvacuous :
    WFProg C15ex.prog ∧
    print C15ex.prog C15ex.lay =
      "%it's \"100%\nEntry {a}{}{\nb.c}\x0d\nFUNCTION {f}%it's \"100%\n{#-12 'x\"100% {#\"\x0b:={+{}a'*}}read%end \"".toList ∧
    parseString (print C15ex.prog C15ex.lay) = .ok C15ex.prog := by
  refine ⟨by decide, by rfl, by rfl⟩

/-- lay-out independence: white space, line breaks, comments and brace spacing do not matter -/
theorem C15_layout_independent (p : Program) (L₁ L₂ : Layout) (hwf : WFProg p) :
    parseString (print p L₁) = parseString (print p L₂) := by
  rw [C15_roundtrip p L₁ hwf, C15_roundtrip p L₂ hwf]

/-! ### Command names -/

/-- pybtex's arity table (`BstParser.COMMANDS`, regenerated from /repo on every run) is the
reference table of the ten BibTeX commands: same names, same numbers of argument groups. -/
theorem C15_commands_table : Gen.bstCommands = commandTable := commands_table


/-- Command names are looked up case-insensitively and returned as written: the arity depends on
the upper-cased name only, and a program whose commands are well-formed up to the letter case of
their names parses to itself, spelling included.  Conjunct 1 is [model wiring] on the SPEC function
`cmdArity` (defined as a lookup of `upper name`; the model's `cmdArityM` is tied to it by
`C15_commands_table`); conjunct 2 is a corollary of `C15_roundtrip`, whose `WFProg` already allows
any letter case.  The claim about the code is carried by `C15_roundtrip` + `C15_commands_table`. -/
theorem C15_command_case :
    (∀ n n' : Str, upper n = upper n' → cmdArity n = cmdArity n') ∧
    (∀ (p : Program) (L : Layout),
      (∀ c ∈ p, wfName c.name = true ∧
        ∃ c₀ : Command, wfCommand c₀ = true ∧ upper c₀.name = upper c.name ∧ c₀.groups = c.groups) →
      parseString (print p L) = .ok p) := by
  refine ⟨fun n n' h => by simp [cmdArity, h], ?_⟩
  intro p L h
  apply C15_roundtrip
  unfold WFProg
  rw [List.all_eq_true]
  intro c hc
  obtain ⟨hn, c₀, hw, hu, hg⟩ := h c hc
  simp only [wfCommand, Bool.and_eq_true, beq_iff_eq] at hw ⊢
  refine ⟨⟨hn, ?_⟩, ?_⟩
  · rw [← hg, ← hw.1.2]; simp [cmdArity, hu]
  · rw [← hg]; exact hw.2

theorem C15_command_case_nonvacuous :
    cmdArity "eNtRy".toList = some 3 ∧ cmdArity "ENTRY".toList = some 3 ∧
    cmdArity "iterate".toList = some 1 ∧ cmdArity "entries".toList = none ∧
    parseString "eNtRy{a}{}{}rEAD".toList =
      .ok [⟨"eNtRy".toList, [[.name "a".toList], [], []]⟩, ⟨"rEAD".toList, []⟩] := by
  refine ⟨by decide, by decide, by decide, by decide, by rfl⟩

/-! ### Malformed source -/

/-- **Malformed source is rejected with a syntax error that names the line of the offending
lexeme.**  The source is a well-formed program `p` followed by the offence, printed with ANY
lay-out (`gaps`, final comment `tr`); `lexLine ls gaps i` is 1 + the number of line breaks of the
source in front of lexeme `i`, `eofLine` the last line of the source.

1. where a command is expected stands a lexeme that is not one — an unknown name, a stray `}` or
   `{`, an integer, a string: "BST command expected" on the line of that lexeme;
2. a command has fewer groups than its arity and something other than `{` follows:
   "'{' expected" on the line of that lexeme (this is the repaired behaviour, C15-1);
3. the text ends while groups of a command are still due: premature end of file, last line;
4. a group is opened and never closed (ONE open level holding complete tokens; any depth:
   `C15_unclosed_groups_located`): premature end of file, last line.

These are offence SHAPES behind a well-formed prefix, not all malformed text; there is no theorem
"every source that is not a lay-out of a well-formed program is rejected". -/
theorem C15_malformed_located (p : Program) (hp : WFProg p) (gaps : List Gap)
    (tr : Option CommentText) :
    (∀ (bad : Lex) (more : List Lex), wfLex bad = true → (∀ x ∈ more, wfLex x = true) →
      (∀ s, bad = .word s → cmdArity s = none) →
      parseString (render none (Program.lexemes p ++ bad :: more) gaps ++ trailerText tr)
        = .error (.tokenRequired "BST command".toList
            (lexLine (Program.lexemes p ++ bad :: more) gaps (Program.lexemes p).length))) ∧
    (∀ (name : Str) (gs : List (List Tok)) (j : Nat) (bad : Lex) (more : List Lex),
      wfName name = true → cmdArity name = some (gs.length + (j + 1)) → gs.all wfToks = true →
      wfLex bad = true → bad ≠ .lb → (∀ x ∈ more, wfLex x = true) →
      parseString (render none
          (Program.lexemes p ++ .word name :: (groupsLexemes gs ++ bad :: more)) gaps ++ trailerText tr)
        = .error (.tokenRequired "'{'".toList
            (lexLine (Program.lexemes p ++ .word name :: (groupsLexemes gs ++ bad :: more)) gaps
              ((Program.lexemes p).length + 1 + (groupsLexemes gs).length)))) ∧
    (∀ (name : Str) (gs : List (List Tok)) (j : Nat),
      wfName name = true → cmdArity name = some (gs.length + (j + 1)) → gs.all wfToks = true →
      parseString (render none (Program.lexemes p ++ .word name :: groupsLexemes gs) gaps
          ++ trailerText tr)
        = .error (.prematureEOF (eofLine (render none
            (Program.lexemes p ++ .word name :: groupsLexemes gs) gaps ++ trailerText tr)))) ∧
    (∀ (name : Str) (gs : List (List Tok)) (j : Nat) (ts : List Tok),
      wfName name = true → cmdArity name = some (gs.length + (j + 1)) → gs.all wfToks = true →
      wfToks ts = true →
      parseString (render none
          (Program.lexemes p ++ .word name :: (groupsLexemes gs ++ .lb :: lexemesList ts)) gaps
          ++ trailerText tr)
        = .error (.prematureEOF (eofLine (render none
            (Program.lexemes p ++ .word name :: (groupsLexemes gs ++ .lb :: lexemesList ts)) gaps
            ++ trailerText tr)))) :=
  ⟨fun bad more hb hm hn => located_bad_command p bad more gaps tr hp hb hm hn,
   fun name gs j bad more h1 h2 h3 h4 h5 h6 =>
     located_brace_expected p name gs j bad more gaps tr hp h1 h2 h3 h4 h5 h6,
   fun name gs j h1 h2 h3 => located_missing_groups p name gs j gaps tr hp h1 h2 h3,
   fun name gs j ts h1 h2 h3 h4 => located_open_group p name gs j ts gaps tr hp h1 h2 h3 h4⟩

namespace C15ex
/-- the instantiations of `C15_malformed_located` used by its `_nonvacuous` companion: a
well-formed prefix, the offence, and a lay-out (gap before the first lexeme, then the gap after
each lexeme) with comments and line breaks that puts the offence on line 3 -/
def rd : Program := [⟨"READ".toList, []⟩]
def cmt (t : String) (h : (t.toList.all fun c => !isLineSep c) = true := by decide) : GapItem :=
  .comment ⟨t.toList, h⟩ ⟨'\n', by decide⟩
/-- `READ % c⏎⏎foo {x}`: an unknown name where a command is due -/
def more1 : List Lex := [.lb, .word "x".toList, .rb]
def gaps1 : List Gap := [[], [sp, cmt " c", nlc], [sp]]
/-- `READ⏎%⏎} sort`: a stray `}` where a command is due -/
def gaps1b : List Gap := [[], [nlc, cmt ""], [sp]]
/-- `ENTRY {a}⏎  {b}⏎  READ`: the third group of ENTRY is missing, a name follows -/
def gs2 : List (List Tok) := [[.name "a".toList], [.name "b".toList]]
def gaps2 : List Gap := [[], [sp], [], [], [nlc, sp, sp], [], [], [nlc, sp, sp]]
/-- `MACRO {a}⏎⏎ %x`: the text ends with a group of MACRO still due -/
def gs3 : List (List Tok) := [[.name "a".toList]]
def gaps3 : List Gap := [[], [sp], [], [], [nlc, nlc, sp]]
/-- `FUNCTION {f}⏎{ a { b }⏎ #1 % }`: the second group is opened and never closed -/
def gs4 : List (List Tok) := [[.name "f".toList]]
def ts4 : List Tok := [.name "a".toList, .fn [.name "b".toList], .int 1]
def gaps4 : List Gap := [[], [sp], [], [], [nlc], [sp], [sp], [sp], [sp], [nlc, sp], [sp]]
end C15ex

/-- `C15_malformed_located` INSTANTIATED, once per case (twice for case 1): for each instance the
hypotheses hold (`WFProg` of the prefix, `wfLex` / `cmdArity … = none` of the offence, name, arity
and groups of the unfinished command), the source the theorem speaks about — `render` of prefix +
offence under the exhibited lay-out, plus the final comment — IS the literal text, and the line
the theorem names (`lexLine` of the offending lexeme, resp. `eofLine`) is 3; the rejection of the
literal text is then obtained FROM the theorem (not by evaluating the parser).  The reference
reading `read` of the lexeme sequence names the same offending lexeme. -/
theorem C15_malformed_located_nonvacuous :
    -- the instances: hypotheses, rendered text = literal, line named by the theorem
    (WFProg C15ex.rd ∧ wfLex (.word "foo".toList) = true ∧ cmdArity "foo".toList = none ∧
      (∀ x ∈ C15ex.more1, wfLex x = true) ∧
      render none (Program.lexemes C15ex.rd ++ .word "foo".toList :: C15ex.more1) C15ex.gaps1 ++ trailerText none
        = "READ % c\n\nfoo {x}".toList ∧
      lexLine (Program.lexemes C15ex.rd ++ .word "foo".toList :: C15ex.more1) C15ex.gaps1
        (Program.lexemes C15ex.rd).length = 3) ∧
    (wfLex .rb = true ∧ (∀ x ∈ [Lex.word "sort".toList], wfLex x = true) ∧
      render none (Program.lexemes C15ex.rd ++ .rb :: [.word "sort".toList]) C15ex.gaps1b ++ trailerText none
        = "READ\n%\n} sort".toList ∧
      lexLine (Program.lexemes C15ex.rd ++ .rb :: [.word "sort".toList]) C15ex.gaps1b
        (Program.lexemes C15ex.rd).length = 3) ∧
    (WFProg [] ∧ wfName "ENTRY".toList = true ∧ cmdArity "ENTRY".toList = some (C15ex.gs2.length + (0 + 1)) ∧
      C15ex.gs2.all wfToks = true ∧ wfLex (.word "READ".toList) = true ∧ Lex.word "READ".toList ≠ .lb ∧
      render none (Program.lexemes [] ++ .word "ENTRY".toList ::
          (groupsLexemes C15ex.gs2 ++ .word "READ".toList :: [])) C15ex.gaps2 ++ trailerText none
        = "ENTRY {a}\n  {b}\n  READ".toList ∧
      lexLine (Program.lexemes [] ++ .word "ENTRY".toList :: (groupsLexemes C15ex.gs2 ++ .word "READ".toList :: []))
        C15ex.gaps2 ((Program.lexemes []).length + 1 + (groupsLexemes C15ex.gs2).length) = 3) ∧
    (wfName "MACRO".toList = true ∧ cmdArity "MACRO".toList = some (C15ex.gs3.length + (0 + 1)) ∧
      C15ex.gs3.all wfToks = true ∧
      render none (Program.lexemes [] ++ .word "MACRO".toList :: groupsLexemes C15ex.gs3) C15ex.gaps3
          ++ trailerText (some ⟨"x".toList, by decide⟩)
        = "MACRO {a}\n\n %x".toList ∧
      eofLine "MACRO {a}\n\n %x".toList = 3) ∧
    (wfName "FUNCTION".toList = true ∧ cmdArity "FUNCTION".toList = some (C15ex.gs4.length + (0 + 1)) ∧
      C15ex.gs4.all wfToks = true ∧ wfToks C15ex.ts4 = true ∧
      render none (Program.lexemes [] ++ .word "FUNCTION".toList ::
          (groupsLexemes C15ex.gs4 ++ .lb :: lexemesList C15ex.ts4)) C15ex.gaps4
          ++ trailerText (some ⟨" }".toList, by decide⟩)
        = "FUNCTION {f}\n{ a { b }\n #1 % }".toList ∧
      eofLine "FUNCTION {f}\n{ a { b }\n #1 % }".toList = 3) ∧
    -- what the theorem then says about the literal texts
    parseString "READ % c\n\nfoo {x}".toList = .error (.tokenRequired "BST command".toList 3) ∧
    parseString "READ\n%\n} sort".toList = .error (.tokenRequired "BST command".toList 3) ∧
    parseString "ENTRY {a}\n  {b}\n  READ".toList = .error (.tokenRequired "'{'".toList 3) ∧
    parseString "MACRO {a}\n\n %x".toList = .error (.prematureEOF 3) ∧
    parseString "FUNCTION {f}\n{ a { b }\n #1 % }".toList = .error (.prematureEOF 3) ∧
    (match read [.word "READ".toList, .word "foo".toList, .lb, .word "x".toList, .rb] with
      | .badCommand 1 => True | _ => False) ∧
    (match read [.word "ENTRY".toList, .lb, .word "a".toList, .rb, .lb, .word "b".toList, .rb,
        .word "READ".toList] with
      | .braceExpected 7 => True | _ => False) := by
  have hrd : WFProg C15ex.rd := by decide
  have hnil : WFProg [] := by decide
  -- case 1
  have a1 : wfLex (.word "foo".toList) = true := by decide
  have a2 : cmdArity "foo".toList = none := by decide
  have a3 : ∀ x ∈ C15ex.more1, wfLex x = true := by decide
  have t1 : render none (Program.lexemes C15ex.rd ++ .word "foo".toList :: C15ex.more1) C15ex.gaps1 ++ trailerText none
      = "READ % c\n\nfoo {x}".toList := by decide +kernel
  have l1 : lexLine (Program.lexemes C15ex.rd ++ .word "foo".toList :: C15ex.more1) C15ex.gaps1
      (Program.lexemes C15ex.rd).length = 3 := by decide +kernel
  have r1 := (C15_malformed_located C15ex.rd hrd C15ex.gaps1 none).1 (.word "foo".toList) C15ex.more1 a1 a3
    (fun s hs => by cases hs; exact a2)
  rw [t1, l1] at r1
  -- case 1, a stray closing brace
  have b1 : wfLex .rb = true := by decide
  have b3 : ∀ x ∈ [Lex.word "sort".toList], wfLex x = true := by decide
  have t1b : render none (Program.lexemes C15ex.rd ++ .rb :: [.word "sort".toList]) C15ex.gaps1b ++ trailerText none
      = "READ\n%\n} sort".toList := by decide +kernel
  have l1b : lexLine (Program.lexemes C15ex.rd ++ .rb :: [.word "sort".toList]) C15ex.gaps1b
      (Program.lexemes C15ex.rd).length = 3 := by decide +kernel
  have r1b := (C15_malformed_located C15ex.rd hrd C15ex.gaps1b none).1 .rb [.word "sort".toList] b1 b3
    (fun s hs => by cases hs)
  rw [t1b, l1b] at r1b
  -- case 2
  have c1 : wfName "ENTRY".toList = true := by decide
  have c2 : cmdArity "ENTRY".toList = some (C15ex.gs2.length + (0 + 1)) := by decide
  have c3 : C15ex.gs2.all wfToks = true := by decide
  have c4 : wfLex (.word "READ".toList) = true := by decide
  have c5 : Lex.word "READ".toList ≠ .lb := by decide
  have t2 : render none (Program.lexemes [] ++ .word "ENTRY".toList ::
      (groupsLexemes C15ex.gs2 ++ .word "READ".toList :: [])) C15ex.gaps2 ++ trailerText none
      = "ENTRY {a}\n  {b}\n  READ".toList := by decide +kernel
  have l2 : lexLine (Program.lexemes [] ++ .word "ENTRY".toList :: (groupsLexemes C15ex.gs2 ++ .word "READ".toList :: []))
      C15ex.gaps2 ((Program.lexemes []).length + 1 + (groupsLexemes C15ex.gs2).length) = 3 := by decide +kernel
  have r2 := (C15_malformed_located [] hnil C15ex.gaps2 none).2.1 "ENTRY".toList C15ex.gs2 0 (.word "READ".toList) []
    c1 c2 c3 c4 c5 (by simp)
  rw [t2, l2] at r2
  -- case 3
  have d1 : wfName "MACRO".toList = true := by decide
  have d2 : cmdArity "MACRO".toList = some (C15ex.gs3.length + (0 + 1)) := by decide
  have d3 : C15ex.gs3.all wfToks = true := by decide
  have t3 : render none (Program.lexemes [] ++ .word "MACRO".toList :: groupsLexemes C15ex.gs3) C15ex.gaps3
      ++ trailerText (some ⟨"x".toList, by decide⟩) = "MACRO {a}\n\n %x".toList := by decide +kernel
  have l3 : eofLine "MACRO {a}\n\n %x".toList = 3 := by decide +kernel
  have r3 := (C15_malformed_located [] hnil C15ex.gaps3 (some ⟨"x".toList, by decide⟩)).2.2.1 "MACRO".toList C15ex.gs3 0 d1 d2 d3
  rw [t3, l3] at r3
  -- case 4
  have e1 : wfName "FUNCTION".toList = true := by decide
  have e2 : cmdArity "FUNCTION".toList = some (C15ex.gs4.length + (0 + 1)) := by decide
  have e3 : C15ex.gs4.all wfToks = true := by decide
  have e4 : wfToks C15ex.ts4 = true := by decide
  have t4 : render none (Program.lexemes [] ++ .word "FUNCTION".toList ::
      (groupsLexemes C15ex.gs4 ++ .lb :: lexemesList C15ex.ts4)) C15ex.gaps4
      ++ trailerText (some ⟨" }".toList, by decide⟩) = "FUNCTION {f}\n{ a { b }\n #1 % }".toList := by decide +kernel
  have l4 : eofLine "FUNCTION {f}\n{ a { b }\n #1 % }".toList = 3 := by decide +kernel
  have r4 := (C15_malformed_located [] hnil C15ex.gaps4 (some ⟨" }".toList, by decide⟩)).2.2.2 "FUNCTION".toList C15ex.gs4 0
    C15ex.ts4 e1 e2 e3 e4
  rw [t4, l4] at r4
  exact ⟨⟨hrd, a1, a2, a3, t1, l1⟩, ⟨b1, b3, t1b, l1b⟩, ⟨hnil, c1, c2, c3, c4, c5, t2, l2⟩, ⟨d1, d2, d3, t3, l3⟩,
    ⟨e1, e2, e3, e4, t4, l4⟩, r1, r1b, r2, r3, r4, True.intro, True.intro⟩

/-- **The text ends while groups are open, at ANY depth** (generalises case 4 of
`C15_malformed_located`, which has one open level): behind a well-formed program and the complete
groups `gs` of a command, an argument group is open with complete tokens `ts`, and inside it
further function literals are open, each with complete tokens (`rest`, outermost first) — what is
left when a source is cut off anywhere between two tokens, or when several `}` are missing.  Under
ANY lay-out and final comment: premature end of file, on the last line of the source. -/
theorem C15_unclosed_groups_located (p : Program) (hp : WFProg p) (gaps : List Gap)
    (tr : Option CommentText) (name : Str) (gs : List (List Tok)) (j : Nat) (ts : List Tok)
    (rest : List (List Tok)) (hname : wfName name = true)
    (har : cmdArity name = some (gs.length + (j + 1))) (hgs : gs.all wfToks = true)
    (hts : wfToks ts = true) (hrest : rest.all wfToks = true) :
    parseString (render none
        (Program.lexemes p ++ .word name :: (groupsLexemes gs ++ openLexemes (ts :: rest))) gaps
        ++ trailerText tr)
      = .error (.prematureEOF (eofLine (render none
          (Program.lexemes p ++ .word name :: (groupsLexemes gs ++ openLexemes (ts :: rest))) gaps
          ++ trailerText tr))) :=
  located_open_groups p name gs j ts rest gaps tr hp hname har hgs hts hrest

namespace C15ex
/-- `READ⏎FUNCTION {f}{ a { b⏎ #1 % }`: two levels left open (the `}` of the text is in a comment) -/
def ts5 : List Tok := [.name "a".toList]
def rest5 : List (List Tok) := [[.name "b".toList, .int 1]]
def gaps5 : List Gap := [[], [nlc], [sp], [], [], [], [sp], [sp], [sp], [nlc, sp], [sp]]
end C15ex

/-- the theorem instantiated: hypotheses hold, the rendered source is the literal text, its last
line is 3, and the rejection of the literal text is obtained from the theorem -/
theorem C15_unclosed_groups_located_nonvacuous :
    WFProg C15ex.rd ∧ wfName "FUNCTION".toList = true ∧
    cmdArity "FUNCTION".toList = some (C15ex.gs4.length + (0 + 1)) ∧ C15ex.gs4.all wfToks = true ∧
    wfToks C15ex.ts5 = true ∧ C15ex.rest5.all wfToks = true ∧
    render none (Program.lexemes C15ex.rd ++ .word "FUNCTION".toList ::
        (groupsLexemes C15ex.gs4 ++ openLexemes (C15ex.ts5 :: C15ex.rest5))) C15ex.gaps5
        ++ trailerText (some ⟨" }".toList, by decide⟩)
      = "READ\nFUNCTION {f}{ a { b\n #1 % }".toList ∧
    eofLine "READ\nFUNCTION {f}{ a { b\n #1 % }".toList = 3 ∧
    parseString "READ\nFUNCTION {f}{ a { b\n #1 % }".toList = .error (.prematureEOF 3) := by
  have hrd : WFProg C15ex.rd := by decide
  have e1 : wfName "FUNCTION".toList = true := by decide
  have e2 : cmdArity "FUNCTION".toList = some (C15ex.gs4.length + (0 + 1)) := by decide
  have e3 : C15ex.gs4.all wfToks = true := by decide
  have e4 : wfToks C15ex.ts5 = true := by decide
  have e5 : C15ex.rest5.all wfToks = true := by decide
  have t : render none (Program.lexemes C15ex.rd ++ .word "FUNCTION".toList ::
      (groupsLexemes C15ex.gs4 ++ openLexemes (C15ex.ts5 :: C15ex.rest5))) C15ex.gaps5
      ++ trailerText (some ⟨" }".toList, by decide⟩)
      = "READ\nFUNCTION {f}{ a { b\n #1 % }".toList := by decide +kernel
  have l : eofLine "READ\nFUNCTION {f}{ a { b\n #1 % }".toList = 3 := by decide +kernel
  have r := C15_unclosed_groups_located C15ex.rd hrd C15ex.gaps5 (some ⟨" }".toList, by decide⟩)
    "FUNCTION".toList C15ex.gs4 0 C15ex.ts5 C15ex.rest5 e1 e2 e3 e4 e5
  rw [t, l] at r
  exact ⟨hrd, e1, e2, e3, e4, e5, t, l, r⟩

/-- Unterminated string literal, at the level of the text handed to the parser: when the scanner,
inside a group, reaches a `"` after which no further `"` occurs, it reports
"name or string or integer or '{' or '}' expected" on the line it is on (the line of the quote).
(The end-to-end form, from a printed source with any lay-out, is `C15_lexical_error_located`.) -/
theorem C15_unterminated_string_partial (fuel : Nat) (w J : Str) (ln : Nat)
    (hw : ∀ c ∈ w, isWs c = true ∧ c ≠ '\r') (hJ : '"' ∉ J) :
    parseGroupF (fuel + 1) ⟨w ++ '"' :: J, ln⟩
      = .error (.tokenRequired "name or string or integer or '{' or '}'".toList
          (ln + w.count '\n')) := by
  have := parseGroupF_open_string fuel w J hw hJ ln
  rw [this]
  rfl

theorem C15_unterminated_string_partial_nonvacuous :
    parseString "FUNCTION {f}\n{ \"abc % {\n}".toList
      = .error (.tokenRequired "name or string or integer or '{' or '}'".toList 2) := by rfl

/-! ### The model's loops -/

/-- The fuel-indexed loops of the model (`parse_group`, `parse`) never run out of fuel: every
turn consumes at least one character.  The entry points never return the model-only outcomes. -/
theorem C15_fuel_adequate :
    (∀ (src : Str) (e : Err), parseString src = .error e → e ≠ .outOfFuel ∧ e ≠ .eof) ∧
    (∀ (src : Str) (e : Err), parseStream src = .error e → e ≠ .outOfFuel ∧ e ≠ .eof) ∧
    (∀ (st : St) (e : Err), parseGroup st = .error e → e ≠ .outOfFuel) := by
  refine ⟨fun src e h => parseText_fuel _ e h, fun src e h => parseText_fuel _ e h, ?_⟩
  intro st e h
  have := parseGroup_fuel st
  rw [h] at this
  exact this

/-! ### Entry points -/

/-- On text whose only line breaks are `\n` and `\r\n`, `parse_stream` hands the parser the text
of `parse_string` with every line additionally right-stripped; with no trailing white space the
three entry points hand the parser the same text, hence agree. -/
theorem C15_entry_points_agree_partial (src : Str) (hplain : plainBreaks src = true) :
    streamText (streamLines src)
      = joinWith ['\n'] ((splitLines src).map fun l => stripComment (rstrip l)) ∧
    (noTrailingWs src = true →
      parseStream src = parseString src ∧ parseFile src = parseString src) := by
  refine ⟨streamText_plain src hplain, ?_⟩
  intro ht
  have h1 : parseStream src = parseString src := by
    unfold parseStream parseString
    rw [streamText_eq_stringText src hplain ht]
  refine ⟨h1, ?_⟩
  obtain ⟨hu1, hu2⟩ := splitLines_universal src hplain
  unfold parseFile parseStream parseString
  rw [streamText_plain _ hu2, hu1, ← streamText_plain src hplain,
    streamText_eq_stringText src hplain ht]

theorem C15_entry_points_agree_partial_nonvacuous :
    plainBreaks "ENTRY {a}\r\n  {} {b} % c\nREAD".toList = true ∧
    noTrailingWs "ENTRY {a}\r\n  {} {b} % c\nREAD".toList = true := by
  refine ⟨by decide, by decide⟩

/-- Without the proviso the entry points do NOT agree: a string literal spanning a line break
keeps the white space before the break under `parse_string` and loses it under `parse_stream`
(`line.rstrip()`); the text has plain `\n` line breaks only. -/
theorem C15_entry_points_agree_neg :
    plainBreaks "FUNCTION {f} {\"a \nb\"}".toList = true ∧
    parseString "FUNCTION {f} {\"a \nb\"}".toList
      = .ok [⟨"FUNCTION".toList, [[.name "f".toList], [.str "a \nb".toList]]⟩] ∧
    parseStream "FUNCTION {f} {\"a \nb\"}".toList
      = .ok [⟨"FUNCTION".toList, [[.name "f".toList], [.str "a\nb".toList]]⟩] := by
  refine ⟨by decide, by rfl, by rfl⟩

/-! ### Lexically broken source -/

/-- **Text that cannot begin a token is rejected on the line where it starts.**  The source is a
well-formed prefix printed with ANY lay-out, followed by arbitrary text `T` with `lexBad T`: a `#`
with no (ASCII) integer behind it — `#`, `#-`, `#+1`, `#a`, `#٣` — or a `"` that is never closed,
followed by anything at all.  `tailLine ls gaps` is 1 + the number of line breaks of the source in
front of `T`.

1. inside an argument group — after complete tokens `ts` of the group and at any depth of further
   open function literals `rest`: "name or string or integer or '{' or '}' expected";
2. where a command is expected: "BST command expected";
3. where the `{` of an argument group is expected: "'{' expected". -/
theorem C15_lexical_error_located (p : Program) (hp : WFProg p) (gaps : List Gap) (T : Str)
    (hT : lexBad T = true) :
    (∀ (name : Str) (gs : List (List Tok)) (j : Nat) (ts : List Tok) (rest : List (List Tok)),
      wfName name = true → cmdArity name = some (gs.length + (j + 1)) → gs.all wfToks = true →
      wfToks ts = true → rest.all wfToks = true →
      parseString (render none
          (Program.lexemes p ++ .word name :: (groupsLexemes gs ++ openLexemes (ts :: rest))) gaps ++ T)
        = .error (.tokenRequired "name or string or integer or '{' or '}'".toList (tailLine
            (Program.lexemes p ++ .word name :: (groupsLexemes gs ++ openLexemes (ts :: rest))) gaps))) ∧
    parseString (render none (Program.lexemes p) gaps ++ T)
      = .error (.tokenRequired "BST command".toList (tailLine (Program.lexemes p) gaps)) ∧
    (∀ (name : Str) (gs : List (List Tok)) (j : Nat),
      wfName name = true → cmdArity name = some (gs.length + (j + 1)) → gs.all wfToks = true →
      parseString (render none (Program.lexemes p ++ .word name :: groupsLexemes gs) gaps ++ T)
        = .error (.tokenRequired "'{'".toList
            (tailLine (Program.lexemes p ++ .word name :: groupsLexemes gs) gaps))) :=
  ⟨fun name gs j ts rest h1 h2 h3 h4 h5 =>
     located_lexical_group p name gs j ts rest gaps T hp h1 h2 h3 h4 h5 hT,
   located_lexical_command p gaps T hp hT,
   fun name gs j h1 h2 h3 => located_lexical_brace p name gs j gaps T hp h1 h2 h3 hT⟩

/-- the texts of the review are `lexBad`, the ones that do begin a token are not; concrete
instances of the three cases with the offence on line 3 (kernel evaluation); the reference
reading `readBad` of the lexeme prefix names the same place -/
theorem C15_lexical_error_located_nonvacuous :
    lexBad "#".toList = true ∧ lexBad "#-".toList = true ∧ lexBad "#+1 }".toList = true ∧
    lexBad "#a".toList = true ∧ lexBad "#\u0663}".toList = true ∧ lexBad "\"x } READ".toList = true ∧
    lexBad "#1".toList = false ∧ lexBad "#-2x".toList = false ∧ lexBad "\"x\" }".toList = false ∧
    lexBad "'".toList = false ∧
    parseString "READ\nFUNCTION {f} { a { #1\n  #+1 } }".toList
      = .error (.tokenRequired "name or string or integer or '{' or '}'".toList 3) ∧
    parseString "READ %\n\n \"abc\n SORT".toList = .error (.tokenRequired "BST command".toList 3) ∧
    parseString "MACRO {a}\n\n#- {b}".toList = .error (.tokenRequired "'{'".toList 3) ∧
    (match readBad [.word "READ".toList, .word "FUNCTION".toList, .lb, .word "f".toList, .rb, .lb,
        .word "a".toList, .lb, .int 1] with
      | .lexicalError 9 => True | _ => False) ∧
    (match readBad [.word "READ".toList] with | .badCommand 1 => True | _ => False) ∧
    (match readBad [.word "MACRO".toList, .lb, .word "a".toList, .rb] with
      | .braceExpected 4 => True | _ => False) := by
  refine ⟨by decide, by decide, by decide, by decide, by decide, by decide, by decide, by decide,
    by decide, by decide, by rfl, by rfl, by rfl, by exact True.intro, by exact True.intro,
    by exact True.intro⟩

/-- **An integer literal with more digits than the interpreter converts** (`intDigitLimit`;
`int()` raises `ValueError`) inside a group is rejected with a syntax error on its line (the
repaired `parse_group`, `proposed_fixes/C15-3`); `T2` is whatever follows the literal. -/
theorem C15_int_too_long_located (p : Program) (hp : WFProg p) (gaps : List Gap) (name : Str)
    (gs : List (List Tok)) (j : Nat) (ts : List Tok) (rest : List (List Tok)) (v : Int) (T2 : Str)
    (hname : wfName name = true) (har : cmdArity name = some (gs.length + (j + 1)))
    (hgs : gs.all wfToks = true) (hts : wfToks ts = true) (hrest : rest.all wfToks = true)
    (hv : wfInt v = false) (hT2 : headSat isDigit T2 = false) :
    parseString (render none
        (Program.lexemes p ++ .word name :: (groupsLexemes gs ++ openLexemes (ts :: rest))) gaps
        ++ (intText v ++ T2))
      = .error (.syntaxError "integer literal too long".toList (tailLine
          (Program.lexemes p ++ .word name :: (groupsLexemes gs ++ openLexemes (ts :: rest))) gaps)) :=
  located_int_too_long p name gs j ts rest gaps v T2 hp hname har hgs hts hrest hv hT2

/-- the limit is the running interpreter's (regenerated on every run); 4300 digits are well-formed,
4301 are not -/
theorem C15_int_too_long_located_nonvacuous :
    Gen.intMaxStrDigits = intDigitLimit ∧ wfInt (10 ^ 4299) = true ∧ wfInt (-(10 ^ 4299)) = true ∧
    wfInt (10 ^ 4300) = false ∧ wfInt (-(10 ^ 4300)) = false := by
  refine ⟨int_limit, by decide +kernel, by decide +kernel, by decide +kernel, by decide +kernel⟩

/-! ### Equality of parse results -/

/-- **The `==` of parse results** (`progEq`: `list.__eq__` over `Variable.__eq__` = same class and
same value, `Function.__eq__` = same class and equal bodies) **is structural equality**, and on
printed well-formed programs it holds exactly when the same program was written: two sources
compare equal iff they spell the same program, whatever their lay-outs. -/
theorem C15_equality :
    (∀ p q : Program, progEq p q = true ↔ p = q) ∧
    (∀ (p q : Program) (L₁ L₂ : Layout), WFProg p → WFProg q →
      (parseString (print p L₁) = parseString (print q L₂) ↔ p = q) ∧
      ∃ a b, parseString (print p L₁) = .ok a ∧ parseString (print q L₂) = .ok b ∧
        (progEq a b = true ↔ p = q) ∧ progEq a a = true) := by
  refine ⟨progEq_iff, ?_⟩
  intro p q L₁ L₂ hp hq
  rw [C15_roundtrip p L₁ hp, C15_roundtrip q L₂ hq]
  refine ⟨by simp, p, q, rfl, rfl, progEq_iff p q, (progEq_iff p p).2 rfl⟩

/-- tokens that differ in one leaf, in the class of a leaf, or in a nested body are unequal -/
theorem C15_equality_nonvacuous :
    tokEq (.int 1) (.int 2) = false ∧ tokEq (.name "x".toList) (.quoted "x".toList) = false ∧
    tokEq (.str "1".toList) (.int 1) = false ∧
    tokEq (.fn [.int 1, .fn [.str "a".toList]]) (.fn [.int 1, .fn [.str "b".toList]]) = false ∧
    tokEq (.fn [.int 1, .fn [.str "a".toList]]) (.fn [.int 1, .fn [.str "a".toList]]) = true ∧
    progEq [⟨"READ".toList, []⟩] [⟨"read".toList, []⟩] = false := by
  refine ⟨by decide, by decide, by decide, by decide, by decide, by decide⟩

/-! ### Command names are ASCII words -/

/-- **Only the ten commands, in ASCII letter case, are commands.**  A name the arity table
accepts consists of ASCII letters only and its ASCII upper-casing is an entry of the table; every
command of every ACCEPTED source is such a name and carries exactly that entry's number of
argument groups.  (The pinned code used `str.upper()`: `ſORT`, `ıTERATE {f}` were accepted;
`proposed_fixes/C15-2`.) -/
theorem C15_command_ascii :
    (∀ (n : Str) (k : Nat), cmdArity n = some k →
      (upper n, k) ∈ commandTable ∧ ∀ c ∈ n, isAlpha c = true) ∧
    (∀ (src : Str) (p : Program), parseString src = .ok p →
      ∀ c ∈ p, cmdArity c.name = some c.groups.length) := by
  refine ⟨cmdArity_ascii, ?_⟩
  intro src p h
  exact parseF_arity _ _ _ h

/-- look-alikes that `str.upper()` / `\d` would accept are rejected, on the right line -/
theorem C15_command_ascii_nonvacuous :
    cmdArity "\u017fORT".toList = none ∧ cmdArity "\u0131TERATE".toList = none ∧
    cmdArity "sOrT".toList = some 0 ∧
    parseString "READ\n\u017fORT".toList = .error (.tokenRequired "BST command".toList 2) ∧
    parseString "\u0131TERATE {f}".toList = .error (.tokenRequired "BST command".toList 1) ∧
    parseString "FUNCTION {f}\n{#\u0663}".toList
      = .error (.tokenRequired "name or string or integer or '{' or '}'".toList 2) ∧
    parseString "FUNCTION {f} {#1\u0663}".toList
      = .ok [⟨"FUNCTION".toList, [[.name "f".toList], [.int 1, .name "\u0663".toList]]⟩] := by
  refine ⟨by decide, by decide, by decide, by rfl, by rfl, by rfl, by rfl⟩

/-! ### The round trip through `parse_stream` and `parse_file` -/

/-- **Printing any well-formed program and reading it back through `parse_stream` or `parse_file`
is the identity as well**, for every lay-out whose line breaks are `\n` / `\r\n` (the only ones a
text stream and universal-newlines reading recognise) — with or without blanks in front of the
line ends, inside comments, after the last token: `line.rstrip()` only ever removes white space
that stands outside the lexemes, because the string literals of a well-formed program do not span
lines.  (No `noTrailingWs` proviso, unlike `C15_entry_points_agree_partial`.) -/
theorem C15_roundtrip_entry_points (p : Program) (L : Layout) (hwf : WFProg p)
    (hplain : plainBreaks (print p L) = true) :
    parseStream (print p L) = .ok p ∧ parseFile (print p L) = .ok p ∧
    parseStream (print p L) = parseString (print p L) :=
  ⟨parseStream_print p L hwf hplain, parseFile_print p L hwf hplain,
   by rw [parseStream_print p L hwf hplain, C15_roundtrip p L hwf]⟩

namespace C15ex
def lay2 : Layout :=
  ⟨[[], [sp, nlc], [sp, sp], [sp, cr, nlc], [sp, cm, sp, nlc], [], [], [nlc], [], [sp, nlc], [sp]],
   some ⟨"end  ".toList, by decide⟩⟩
end C15ex

/-- a lay-out with blanks in front of `\n`, of `\r\n`, of a comment and at the end of the text:
plain line breaks, trailing white space, and the three entry points read the program back -/
theorem C15_roundtrip_entry_points_nonvacuous :
    WFProg C15ex.prog ∧ plainBreaks (print C15ex.prog C15ex.lay2) = true ∧
    noTrailingWs (print C15ex.prog C15ex.lay2) = false ∧
    parseStream (print C15ex.prog C15ex.lay2) = .ok C15ex.prog ∧
    parseFile (print C15ex.prog C15ex.lay2) = .ok C15ex.prog := by
  refine ⟨by decide, by decide +kernel, by decide +kernel, by rfl, by rfl⟩

end Pybtex.Props
