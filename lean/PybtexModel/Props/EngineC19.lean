/-
C19, engine level — the physical lines of EVERY run of the interpreter model (`Interp.run`).

Property theorems only (a separate module because it needs the frame lemmas of the interpreter,
`Lemmas/Interp.lean`, which `Props/C19.lean` does not import).  Vocabulary: `Spec/WrapEngine.lean`
(`traceGroups`, `traceWrites`, `traceNewlines`); helper lemmas: `Lemmas/WrapEngine.lean`.
-/
import PybtexModel.Props.C19
import PybtexModel.Lemmas.WrapEngine

namespace Pybtex.Props
open Pybtex Pybtex.Wrap

/-- **Engine level: EVERY run of the interpreter model** (audit-d, C19 findings 1–2: `C19_engine_newline`
is definitional wiring and `C19_engine_output` is about the fold `engineSteps`, not about `Interp.run`).
For every `.bst` program, every input and every fuel: if `Interp.run` finishes, then the `.bbl` text it
returns is `engineOutput` of the `newline$` groups of the run's trace of output calls
(`traceGroups [] s.trace`, `Spec/WrapEngine.lean`: the pieces written before the first `newline$`, between
the first and the second, …) — so `C19_engine_output` and, group by group, `C19_default_lines` apply to the
real output of the model: each group is emitted as `wrap(its concatenation, 79, '  ')` and a line feed, the
non-white-space characters of the output are exactly those written before the last `newline$`, in order,
and its words are the words of the groups (no word split or merged, neither inside a group nor across a
`newline$`).  There is one group per `newline$` call, and the groups concatenated are the written pieces in
order, all of them when the last output call is a `newline$` (what is written after it is never output).
That the trace is exactly the list of the `write$` / `newline$` calls executed is `C03_trace` /
`C19_engine_newline`; that the model's run is the Python run is the correspondence (C03, C06). -/
theorem C19_engine_run (fuel : Nat) (prog : Bst.Program) (inp : Interp.Input) (out : Interp.Output)
    (h : Interp.run fuel prog inp = .ok out) :
    ∃ s, Interp.runProgram fuel inp prog { vars := Interp.initVars, citations := inp.citations } = .ok s ∧
      out.bbl = engineOutput (traceGroups [] s.trace) ∧
      out.bbl = ((traceGroups [] s.trace).map fun pieces =>
        joinWith ['\n'] ((iterLines 79 [' ', ' '] pieces.flatten).map rstrip) ++ ['\n']).flatten ∧
      nonWs out.bbl = nonWs (traceGroups [] s.trace).flatten.flatten ∧
      words out.bbl = ((traceGroups [] s.trace).map fun pieces => words pieces.flatten).flatten ∧
      (traceGroups [] s.trace).length = traceNewlines s.trace ∧
      (traceGroups [] s.trace).flatten <+: traceWrites s.trace ∧
      (s.trace.getLast? = some .newline → (traceGroups [] s.trace).flatten = traceWrites s.trace) := by
  unfold Interp.run at h
  split at h
  · cases h
  · rename_i s hs
    cases h
    obtain ⟨⟨evs, ht, he⟩, _, _⟩ := Interp.runProgram_frame fuel inp prog _ s hs
    have ht' : s.trace = evs := by rw [ht]; rfl
    subst ht'
    have hr := Interp.render_spec s.trace [] []
    rw [← he] at hr
    have hbbl : s.lines.flatten = engineOutput (traceGroups [] s.trace) := by
      have := render_eq_engineOutput s.trace []
      simp only [List.flatten_nil] at this
      rw [← this]
      simpa using hr
    have hout := C19_engine_output (traceGroups [] s.trace)
    have hfl := traceGroups_flatten s.trace []
    refine ⟨s, hs, hbbl, ?_, ?_, ?_, traceGroups_length s.trace [], ?_, ?_⟩
    · show s.lines.flatten = _
      rw [hbbl]; exact hout.1
    · show nonWs s.lines.flatten = _
      rw [hbbl]; exact hout.2.1
    · show words s.lines.flatten = _
      rw [hbbl]; exact hout.2.2
    · simpa using hfl.1
    · intro hl; simpa using hfl.2 hl

/-- a program run through `Interp.run` (FUNCTION + EXECUTE; pieces, an empty group, a piece after the last
`newline$` that is lost; a line longer than 79 columns that is wrapped): the hypothesis holds and the groups
are what the program wrote -/
theorem C19_engine_run_nonvacuous :
    let prog : Bst.Program :=
      [⟨"FUNCTION".toList, [[.name "f".toList],
          [.str "ab".toList, .name "write$".toList, .str " c".toList, .name "write$".toList, .name "newline$".toList,
           .name "newline$".toList,
           .str (List.replicate 78 'x'), .name "write$".toList, .str " yy zz".toList, .name "write$".toList,
           .name "newline$".toList, .str "lost".toList, .name "write$".toList]]⟩,
       ⟨"EXECUTE".toList, [[.name "f".toList]]⟩]
    ((Interp.run 100 prog { bibTexts := [], citations := [] }).toOption.map fun o => o.bbl)
      = some ("ab c\n\n".toList ++ List.replicate 78 'x' ++ "\n  yy zz\n".toList) ∧
    ((Interp.runProgram 100 { bibTexts := [], citations := [] } prog
        { vars := Interp.initVars, citations := [] }).toOption.map fun s => traceGroups [] s.trace)
      = some [["ab".toList, " c".toList], [], [List.replicate 78 'x', " yy zz".toList]] := by
  decide +kernel

end Pybtex.Props
