/-
C20, second round — what the `.aux` reader reaches outside `pybtex/auxfile.py` (`Model/AuxFileIO.lean`):
`pybtex.io.open_unicode` with `kpsewhich`, `errors.report_error` in its three modes (through the model of C16),
all of `Engine.make_bibliography`, and the texts the model shares with the source (`Gen/AuxTables.lean`).
Property theorems only.
-/
import PybtexModel.Props.C20
import PybtexModel.Model.AuxFileIO

namespace Pybtex.Props
open Pybtex Pybtex.Aux Pybtex.Aux.Spec

/-! ### the texts -/

/-- Every text the model hard-codes is the text of the source the tables were regenerated from on this run: the
regular expression (pattern = backslash, the alternation `cmdNames` in the model's order, `{(.*)}`; flags = re.UNICODE
only), the five messages, the order of the two fatal checks, the location prefix of `__str__`, the marker of
`get_context`, the message of `pybtex.io._open`, the two prefixes of `errors`, the separator of both `split`s, and
the suffix of the default reader. -/
theorem C20_tables_agree :
    Gen.Aux.commandPattern = "\\\\(".toList ++ joinWith ['|'] (cmdNames.map (·.2)) ++ "){(.*)}".toList ∧
    Gen.Aux.commandFlags = 32 ∧
    Kind.message .anotherBibstyle = Gen.Aux.msgAnotherBibstyle ∧
    Kind.message .anotherBibdata = Gen.Aux.msgAnotherBibdata ∧
    Kind.message (.caseMismatch "{0}".toList "{1}".toList) = Gen.Aux.msgCaseMismatch ∧
    [Kind.message .noBibdata, Kind.message .noBibstyle] = Gen.Aux.fatalOrder ∧
    Kind.message .noBibdata = Gen.Aux.msgNoBibdata ∧ Kind.message .noBibstyle = Gen.Aux.msgNoBibstyle ∧
    Report.str ⟨.noBibdata, [], some 7, none⟩ =
      "in line ".toList ++ "7".toList ++ ": ".toList ++ Gen.Aux.msgNoBibdata ∧
    "in line ".toList ++ "{0}".toList ++ ": ".toList = Gen.Aux.strLocation ∧
    Gen.Aux.contextMarker = ['^'] ∧ Gen.Aux.lstripChars = ['@'] ∧ Gen.Aux.splitSeparators = [',', ','] ∧
    Aux.openMessage "%s".toList "%s".toList = Gen.Aux.openFormat ∧
    Errors.warningPrefix = Gen.Aux.warningPrefix ∧ Errors.errorPrefix = Gen.Aux.errorPrefix ∧
    dget Gen.Aux.readerSuffix none = some ".bib".toList ∧
    dget Gen.Aux.readerSuffix (some "bibtex".toList) = some ".bib".toList := by
  refine ⟨by decide +kernel, by decide, by decide +kernel, by decide +kernel, by decide +kernel, by decide +kernel,
    by decide +kernel, by decide +kernel, by decide +kernel, by decide +kernel, by decide, by decide, by decide,
    by decide +kernel, by decide +kernel, by decide +kernel, by decide +kernel, by decide +kernel⟩

/-! ### `pybtex.io.open_unicode` -/

/-- `open_unicode(p)` as the reader uses it.  (1) A name that is a regular file is opened itself — `kpsewhich` is not
consulted, whatever it would answer.  (2) Otherwise a non-empty answer `q` of `kpsewhich` is opened INSTEAD (the lines
read are those of `q`, or the open fails as `q` fails).  (3) Without an answer (or with the empty answer) the name
itself is opened, which fails unless … it cannot succeed: the name is no regular file.  (4) Every failure is the
pybtex error `unable to open <p AS WRITTEN>. <strerror>` with the strerror of a missing file, a directory or a path
through a file.  [case analysis of the model of `_open` / `_open_existing`] -/
theorem C20_open_unicode (raw : RawFS) (locate : Path → Option Path) (p : Path) :
    (∀ ls, raw p = .file ls → openUnicode raw locate p = .ok ls ∧ openedName raw locate p = p) ∧
    (isfile raw p = false → ∀ q, locate p = some q → q ≠ [] →
      openedName raw locate p = q ∧ ioFS raw locate p = (match raw q with | .file ls => some ls | _ => none)) ∧
    (isfile raw p = false → (locate p = none ∨ locate p = some []) → ioFS raw locate p = none) ∧
    (∀ msg, openUnicode raw locate p = .error msg →
      ∃ strerror, msg = "unable to open ".toList ++ p ++ ". ".toList ++ strerror ∧
        (strerror = Gen.Aux.enoent ∨ strerror = Gen.Aux.eisdir ∨ strerror = Gen.Aux.enotdir)) := by
  refine ⟨?_, ?_, ?_, ?_⟩
  · intro ls h
    simp [openUnicode, openExisting, openedName, isfile, ioOpen, h]
  · intro hf q hq hne
    have hn : openedName raw locate p = q := by
      cases q with
      | nil => exact absurd rfl hne
      | cons c r => simp [openedName, hf, hq]
    refine ⟨hn, ?_⟩
    simp only [ioFS, openUnicode, openExisting, hn, ioOpen]
    cases raw q <;> rfl
  · intro hf h
    have hn : openedName raw locate p = p := by
      rcases h with h | h <;> simp [openedName, hf, h]
    simp only [ioFS, openUnicode, openExisting, hn, ioOpen]
    simp only [isfile] at hf
    cases hr : raw p with
    | file ls => simp [hr] at hf
    | dir => rfl
    | absent => rfl
    | notDir => rfl
  · intro msg h
    simp only [openUnicode, openExisting, ioOpen] at h
    cases hr : raw (openedName raw locate p) with
    | file ls => simp [hr] at h
    | dir => simp [hr] at h; exact ⟨_, h.symm, Or.inr (Or.inl rfl)⟩
    | absent => simp [hr] at h; exact ⟨_, h.symm, Or.inl rfl⟩
    | notDir => simp [hr] at h; exact ⟨_, h.symm, Or.inr (Or.inr rfl)⟩

/-- `u.aux` is found by `kpsewhich` in `tex/`; `t.aux` exists, so the (wrong) answer for it is ignored; a directory -/
theorem C20_open_unicode_nonvacuous :
    let raw := rawOf [("t.aux".toList, ["\\@input{u.aux}".toList]), ("tex/u.aux".toList, ["\\citation{a}".toList])]
    let locate := locateOf [("u.aux".toList, "tex/u.aux".toList), ("t.aux".toList, "tex/u.aux".toList)]
    ioFS raw locate "u.aux".toList = some ["\\citation{a}".toList] ∧
    ioFS raw locate "t.aux".toList = some ["\\@input{u.aux}".toList] ∧
    openUnicode raw locate "tex".toList = .error "unable to open tex. Is a directory".toList ∧
    openUnicode raw locate "t.aux/x".toList = .error "unable to open t.aux/x. Not a directory".toList ∧
    openUnicode raw locate "v.aux".toList = .error "unable to open v.aux. No such file or directory".toList := by
  decide +kernel

/-- **Reports name the file as written and the line of the file that was really read.**  For a closed document over the
file system as `pybtex.io` presents it (with `kpsewhich`), EVERY report carries a name `r.file` and a line number `n ≥ 1`
such that `open_unicode(r.file)` read a regular file `q` — `r.file` itself, or what `kpsewhich` answered for it when it
is no regular file — whose line `n` exists, stripped is the text shown, and is the command causing that kind of
report.  (`C20_reports_located` through `C20_open_unicode`.) -/
theorem C20_reports_located_io (raw : RawFS) (locate : Path → Option Path) (d fuel : Nat) (p : Path)
    (hcl : closedDepth (ioFS raw locate) d p = true) (hle : d ≤ fuel) (r : Report)
    (hr : r ∈ captured (parse (ioFS raw locate) fuel p)) :
    ∃ q lines n l, raw q = .file lines ∧ (q = r.file ∨ (isfile raw r.file = false ∧ locate r.file = some q)) ∧
      r.lineno = some n ∧ 1 ≤ n ∧ lines[n - 1]? = some l ∧ r.line = some (strip l) ∧
      (match r.kind with
       | .caseMismatch a _ => ∃ keys, Spec.classify l = .citation keys ∧ a ∈ keys
       | .anotherBibstyle => ∃ s, Spec.classify l = .bibstyle s
       | .anotherBibdata => ∃ ns, Spec.classify l = .bibdata ns
       | _ => False) := by
  obtain ⟨lines, n, l, hfs, hn, h1, hl, hline, hk⟩ := C20_reports_located (ioFS raw locate) d fuel p hcl hle r hr
  refine ⟨openedName raw locate r.file, lines, n, l, ?_, ?_, hn, h1, hl, hline, hk⟩
  · simp only [ioFS, openUnicode, openExisting, ioOpen] at hfs
    cases hq : raw (openedName raw locate r.file) with
    | file ls => simp [hq] at hfs; rw [hfs]
    | dir => simp [hq] at hfs
    | absent => simp [hq] at hfs
    | notDir => simp [hq] at hfs
  · by_cases hf : isfile raw r.file = true
    · left; simp [openedName, hf]
    · have hf' : isfile raw r.file = false := by simpa using hf
      cases hloc : locate r.file with
      | none => left; simp [openedName, hf', hloc]
      | some q =>
        cases q with
        | nil => left; simp [openedName, hf', hloc]
        | cons c t => right; exact ⟨hf', by simp [openedName, hf', hloc]⟩

/-! ### `report_error` in the three modes -/

theorem reportG_ok (m : Mode) (hm : m ≠ .strict) (st : St) (e : Report) : reportG m st e = .ok (report st e) := by
  cases m <;> simp_all [reportG, Errors.report, Mode.errState]

theorem citeKeyG_ok (m : Mode) (hm : m ≠ .strict) (ctx : Ctx) (st : St) (k : Str) :
    citeKeyG m ctx st k = .ok (citeKey ctx st k) := by
  unfold citeKeyG citeKey
  cases h : dget st.canonical (lowerPy k) with
  | none => simp only [h]
  | some ex =>
    by_cases hk : k = ex
    · subst hk; simp only [h]; simp
    · simp only [h]; simp [hk, reportG_ok m hm]

theorem citeKeysG_ok (m : Mode) (hm : m ≠ .strict) (ctx : Ctx) (ks : List Str) (st : St) :
    citeKeysG m ctx ks st = .ok (ks.foldl (citeKey ctx) st) := by
  induction ks generalizing st with
  | nil => rfl
  | cons k ks ih => simp [citeKeysG, citeKeyG_ok m hm, ih]

theorem handleCommandG_ok (m : Mode) (hm : m ≠ .strict) (inp : St → Path → Except Abort St) (ctx : Ctx) (st : St)
    (cmd : Cmd) (v : Str) : handleCommandG m inp ctx st cmd v = handleCommand inp ctx st cmd v := by
  cases cmd
  · simp [handleCommandG, handleCommand, handleCitationG, handleCitation, citeKeysG_ok m hm]
  · simp only [handleCommandG, handleCommand, handleBibdataG, handleBibdata]
    cases st.data <;> simp [reportG_ok m hm]
  · simp only [handleCommandG, handleCommand, handleBibstyleG, handleBibstyle]
    cases st.style <;> simp [reportG_ok m hm]
  · rfl

theorem parseLineG_ok (m : Mode) (hm : m ≠ .strict) (inp : St → Path → Except Abort St) (st : St) (l : Str) (n : Nat) :
    parseLineG m inp st l n = parseLine inp st l n := by
  unfold parseLineG parseLine
  cases st.context with
  | none => rfl
  | some c =>
    simp only []
    cases matchCommand l with
    | none => rfl
    | some cv => simp [handleCommandG_ok m hm]

theorem parseLinesG_ok (m : Mode) (hm : m ≠ .strict) (inp : St → Path → Except Abort St) (ls : List Str) (n : Nat) (st : St) :
    parseLinesG m inp ls n st = parseLines inp ls n st := by
  induction ls generalizing n st with
  | nil => rfl
  | cons l ls ih =>
    simp only [parseLinesG, parseLines, parseLineG_ok m hm, ih]
    cases parseLine inp st l n <;> rfl

theorem parseFileG_ok (fs : FS) (m : Mode) (hm : m ≠ .strict) (fuel : Nat) (st : St) (p : Path) (tl : Bool) :
    parseFileG fs m fuel st p tl = parseFile fs fuel st p tl := by
  induction fuel generalizing st p tl with
  | zero => rfl
  | succ f ih =>
    have hin : (fun s q => parseFileG fs m f s q false) = (fun s q => parseFile fs f s q false) := by
      funext s q; exact ih s q false
    simp only [parseFileG, parseFile, hin, parseLinesG_ok m hm]
    cases fs p with
    | none => rfl
    | some lines =>
      simp only []
      cases parseLines (fun s q => parseFile fs f s q false) lines 1 { st with context := some (Ctx.new p) } <;> rfl

/-- **Reporting modes** (`errors.report_error` as modelled for C16, `Errors.report`, called where the code calls it).
In capture mode and in non-strict mode the reader does exactly what `parse` does — every theorem of C20 about
citations, style, data, reports and fatal errors holds for both — the reports going to the captured list resp. to
stderr as warnings, one per report in the same order; the exit code becomes 2 exactly when something was printed.
In strict mode `report_error` raises the report as it stands: located like every other report (`mkError` of the same
context), with nothing collected.  (The statement that the error raised in strict mode is the FIRST report of the
capture reading is checked on every generated document, not proved.) -/
theorem C20_modes (fs : FS) (fuel : Nat) (p : Path) :
    parseG fs .capture fuel p = parse fs fuel p ∧
    parseG fs .nonStrict fuel p = parse fs fuel p ∧
    (∀ ch : List Report, errorCode .nonStrict ch = 2 ↔ ch ≠ []) ∧
    (∀ (st : St) (e : Report), reportG .strict st e = .error ⟨.aux e, st.reports⟩) ∧
    (∀ (st : St) (e : Report), (Errors.report (Mode.errState .nonStrict st.reports) e).2 = .printed e ∧
             (Errors.report (Mode.errState .capture st.reports) e).1.captured = some (st.reports ++ [e])) := by
  refine ⟨parseFileG_ok fs .capture (by decide) fuel _ p true, parseFileG_ok fs .nonStrict (by decide) fuel _ p true,
    ?_, ?_, ?_⟩
  · intro ch; cases ch <;> simp [errorCode]
  · intro st e; simp [reportG, Errors.report, Mode.errState]
  · intro st e; simp [Errors.report, Mode.errState]

/-- strict mode on `demoFS`: the first of the four reports (`u.aux`, line 1) is raised, nothing is collected, the rest
of the document is not read; a document without problems parses to the same state in all modes -/
theorem C20_modes_nonvacuous :
    parseG demoFS .strict 4 "t.aux".toList =
      .error ⟨.aux ⟨.caseMismatch "b".toList "B".toList, "u.aux".toList, some 1, some "\\citation{b}".toList⟩, []⟩ ∧
    (captured (parseG demoFS .nonStrict 4 "t.aux".toList)).length = 4 ∧
    parseG (fsOf [("t".toList, ["\\bibstyle{s}".toList, "\\bibdata{x}".toList])]) .strict 2 "t".toList =
      parse (fsOf [("t".toList, ["\\bibstyle{s}".toList, "\\bibdata{x}".toList])]) 2 "t".toList := by
  refine ⟨by decide +kernel, by decide +kernel, by decide +kernel⟩

/-! ### all of `Engine.make_bibliography` -/

/-- `make_bibliography(aux, style, bib_format)` completely.  An unknown reader name fails before anything is read.
Otherwise, in capture or non-strict mode, it is `makeBibliographyArgs` (= `C20_engine_consumes`: the denotation of the
document, names extended by THAT reader's suffix, an explicit style — also the empty one — instead of the file's) plus
`output_filename` = the `.aux` name without its extension and `add_output_suffix = True`. -/
theorem C20_make_bibliography (sfx : List (Option Str × Str)) (fs : FS) (m : Mode) (hm : m ≠ .strict) (fuel : Nat)
    (p : Path) (so bf : Option Str) :
    (dget sfx bf = none → makeBibliography sfx fs m fuel p so bf = .error (.pluginNotFound bf)) ∧
    (∀ s, dget sfx bf = some s →
      makeBibliography sfx fs m fuel p so bf =
        (match makeBibliographyArgs fs fuel p so s with
         | .error a => .error (.abort a)
         | .ok args => .ok ⟨args, splitextRoot p, true⟩)) := by
  constructor
  · intro h; simp [makeBibliography, h]
  · intro s h
    have hp : parseG fs m fuel p = parse fs fuel p := parseFileG_ok fs m hm fuel _ p true
    simp only [makeBibliography, h, hp]
    rfl

theorem C20_make_bibliography_nonvacuous :
    makeBibliography Gen.Aux.readerSuffix demoFS .capture 4 "t.aux".toList (some []) (some "yaml".toList) =
      .ok ⟨⟨["z.yaml".toList], some [], ["a".toList, "B".toList, "b".toList, "a}{c".toList, "A".toList]⟩, "t".toList, true⟩ ∧
    makeBibliography Gen.Aux.readerSuffix demoFS .capture 4 "t.aux".toList none (some "nosuch".toList) =
      .error (.pluginNotFound (some "nosuch".toList)) ∧
    splitextRoot "a.b/.aux".toList = "a.b/.aux".toList ∧ splitextRoot "dir/x.y.aux".toList = "dir/x.y".toList ∧
    splitextRoot "..a".toList = "..a".toList ∧ splitextRoot "a.b/t".toList = "a.b/t".toList := by
  refine ⟨by decide +kernel, by decide +kernel, by decide +kernel, by decide +kernel, by decide +kernel, by decide +kernel⟩

end Pybtex.Props
