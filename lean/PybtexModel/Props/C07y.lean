/-
C07 (lift of the person-level name theorem to whole entries of the shipped styles).  `C07_person_words_shown`
(`Props/C07x.lean`) is about ONE evaluated name template; here the statement is about the formatted entry the fully
modelled run (`formatBibliographyShipped`: model templates, model name styles, fuel `evalFuel`) produces.
Notion a reader has to agree with: `onSpine` (`Lemmas/NamesSpine.lean`).  Property theorems only.
-/
import PybtexModel.Props.C07x
import PybtexModel.Lemmas.NamesSpine

namespace Pybtex.Props
open Pybtex Pybtex.RT Pybtex.Tmpl Pybtex.Tmpl.Spec Pybtex.Tmpl.Unsrt
open C07Ex

/-- **Every word of every person of a role is in the formatted entry** (evaluator level, any template, any table of
name templates built by a shipped name style).  If the template `t` evaluates to `r` in a context whose name templates
are `personTemplatesOf st dec abbr roles`, and a `names` node for `role` is on the spine of `t` (`onSpine`: reached
through `join` / `together` / `tag` / `href` children / `sentence` without `capfirst`, `capitalize`; not through
`optional` / `first_of`), then the role is present — the first of `roles` whose name equals `role` up to case is some
`(nm, ps)` — and for every person `p` of `ps` and every word `w` of `p`, `Text.from_latex(w)` succeeds with some `x` and
`str(r)` contains `str(x)` (von, last, lineage; first and middle names without `abbr`) resp. `str(x.abbreviate())`
(first and middle names with `abbr`) as a contiguous piece. -/
theorem C07_spine_names_shown (st : NameStyle) (dec : List (Str × Str)) (abbr : Bool) (roles : List (Str × List Person))
    (ctx : Ctx) (hpts : personTemplatesOf st dec abbr roles = .ok ctx.personTemplates)
    (fuel : Nat) (t : T) (r : RT) (he : eval fuel ctx t = .ok r) (role : Str) (hs : onSpine role t = true) :
    ∃ nm ps, (roles.find? fun q => lower q.1 = lower role) = some (nm, ps) ∧
      ∀ p ∈ ps,
        (∀ w ∈ p.first ++ p.middle, ∃ x, fromLatex (decodeOf dec w) = .ok x ∧
          toStr (if abbr then abbreviate x else x) <:+: toStr r) ∧
        (∀ w ∈ p.prelast ++ p.last ++ p.lineage, ∃ x, fromLatex (decodeOf dec w) = .ok x ∧ toStr x <:+: toStr r) := by
  obtain ⟨nm, ts, k, rs, hf, hk, hsub⟩ := (spine_printedN ctx role fuel).1 t r he hs
  obtain ⟨ps, hfr, hfn⟩ := personTemplatesOf_find (fun n => decide (lower n = lower role)) hpts nm ts hf
  refine ⟨nm, ps, hfr, fun p hp => ?_⟩
  obtain ⟨t', ht', hft'⟩ := formatNames_mem hfn p hp
  obtain ⟨j, r', hj, hsub'⟩ := evalList_mem ctx ts k rs hk t' ht'
  obtain ⟨a, b, c, d, hshape⟩ := formatName_shape hft'
  obtain ⟨f, rfl⟩ : ∃ f, j = f + 6 := by rw [hshape] at hj; exact eval_join4_fuel ctx j _ _ _ a b c d r' hj
  obtain ⟨fm, von, last, jr, hfm, hvon, hlast, hjr, hp'⟩ := C07_name_style_parts st dec p abbr t' hft'
  refine words_of_nameOccs (st := st) hfm hvon hlast hjr fun o ho => ?_
  have h1 : o ∈ printedN (f + 6) ctx t' := by rw [hp' f ctx]; exact ho
  exact C07_name_coverage.1 fuel ctx t r he o (hsub o (hsub' o h1))

/-- **Whole entries of the shipped styles.**  When a shipped style (`formatBibliographyShipped`: the model's templates of
`unsrt.py`, the model's name styles, `abbreviate_names` = `cfg.abbr`) formats a database whose keys are pairwise
distinct, every formatted entry `f` belongs to a database entry `e` with the same key, and for every role whose `names`
node is on the spine of the entry's template (`onSpine`; which shipped templates: `C07_shipped_spine`) the role is present
in the entry and every word of every person of that role occurs in `str(f.text)` — as `str(Text.from_latex(w))`, resp. its
`abbreviate()` for first and middle names under `abbreviate_names` (what that shows: `C07_abbreviate`). -/
theorem C07_entry_names_shown (cfg : StyleConfig) (dec : List (Str × Str)) (es : List PEntry) (cites : Option (List Str))
    (mc : Int) (rep : List Report) (fs : List Formatted) (hnd : (es.map (·.key)).Nodup)
    (h : formatBibliographyShipped cfg dec es cites mc = some (rep, .ok fs)) :
    ∀ f ∈ fs, ∃ e ∈ es, f.key = e.key ∧
      ∀ t role, getTemplate e = some t → onSpine role t = true →
        ∃ nm ps, (e.roles.find? fun q => lower q.1 = lower role) = some (nm, ps) ∧
          ∀ p ∈ ps,
            (∀ w ∈ p.first ++ p.middle, ∃ x, fromLatex (decodeOf dec w) = .ok x ∧
              toStr (if cfg.abbr then abbreviate x else x) <:+: toStr f.text) ∧
            (∀ w ∈ p.prelast ++ p.last ++ p.lineage, ∃ x, fromLatex (decodeOf dec w) = .ok x ∧
              toStr x <:+: toStr f.text) := by
  intro f hf
  simp only [formatBibliographyShipped] at h
  split at h; · cases h
  rename_i tbl htbl
  simp only [Option.some.injEq] at h
  obtain ⟨e, hm, it, hi, hk, he⟩ := formatBibliography_ok_mem h f hf
  have hes : e ∈ es := by
    simp only [resolvedEntries, List.mem_filterMap, storedEntry] at hm
    obtain ⟨k, -, hfind⟩ := hm
    exact List.mem_of_find?_eq_some hfind
  refine ⟨e, hes, hk, fun t role ht hs => ?_⟩
  obtain ⟨it', h1, h2⟩ := lookup_shipped' htbl hnd e hes
  rw [hi] at h2; subst h2
  simp only [shippedItem] at h1
  split at h1; · cases h1
  rename_i pts hpts
  rw [ht] at h1
  simp only [Except.ok.injEq, Option.some.injEq] at h1; subst h1
  exact C07_spine_names_shown cfg.names dec cfg.abbr e.roles _ hpts evalFuel t f.text he role hs

/-- the (entry type, role) pairs whose `names` node is on the spine of the shipped template whatever the entry -/
def spineAlways : List (String × String) :=
  [("article", "author"), ("booklet", "author"), ("incollection", "author"), ("inproceedings", "author"),
   ("mastersthesis", "author"), ("phdthesis", "author"), ("techreport", "author"), ("unpublished", "author")]

private def spineOK (ty role : String) (has : Bool) : Bool :=
  match templateFn ty.toList with
  | some f => onSpine role.toList (f ⟨has, false⟩) && onSpine role.toList (f ⟨has, true⟩)
  | none => false

private theorem spine_table :
    (∀ p ∈ spineAlways, spineOK p.1 p.2 true = true ∧ spineOK p.1 p.2 false = true) ∧
    spineOK "proceedings" "editor" true = true := by decide +kernel

private theorem spine_of_ok {e : PEntry} {t : T} {ty role : String} {has : Bool} (hty : e.type = ty.toList)
    (h : getTemplate e = some t) (hh : (edInfo e).has = has) (hok : spineOK ty role has = true) :
    onSpine role.toList t = true := by
  simp only [getTemplate, hty] at h
  simp only [spineOK] at hok
  cases hf : templateFn ty.toList with
  | none => simp [hf] at h
  | some f =>
    simp only [hf, Option.some.injEq] at h hok
    subst h
    simp only [Bool.and_eq_true] at hok
    have hi : edInfo e = ⟨has, (edInfo e).many⟩ := by cases hi : edInfo e; simp_all
    rw [hi]
    cases (edInfo e).many
    · exact hok.1
    · exact hok.2

/-- **Which shipped templates have their `names` node on the spine.**  The `author` node of article, booklet,
incollection, inproceedings, mastersthesis, phdthesis, techreport, unpublished — for EVERY entry of that type — and the
`editor` node of a proceedings entry that has an editor.  (Not on the spine, hence not covered by
`C07_entry_names_shown`: author / editor of book and inbook (`first_of`), the author of manual, misc, dataset, online,
patent, software and the editor of incollection / inproceedings (`optional`).) -/
theorem C07_shipped_spine (e : PEntry) (t : T) (h : getTemplate e = some t) :
    (∀ p ∈ spineAlways, e.type = p.1.toList → onSpine p.2.toList t = true) ∧
    (e.type = "proceedings".toList → hasEditor e = true → onSpine "editor".toList t = true) := by
  refine ⟨fun p hp hty => ?_, fun hty hed => ?_⟩
  · have := spine_table.1 p hp
    cases hh : (edInfo e).has
    · exact spine_of_ok hty h hh this.2
    · exact spine_of_ok hty h hh this.1
  · exact spine_of_ok hty h (by simpa [edInfo] using hed) spine_table.2

/-- **Authors of the eight author-first entry types, editors of proceedings** (`C07_entry_names_shown` with
`C07_shipped_spine`): in a successful run of a shipped style over a database with pairwise distinct keys, a formatted
entry `f` comes from an entry `e` of the same key; if `e` is an article, booklet, incollection, inproceedings,
mastersthesis, phdthesis, techreport or unpublished entry, it has an author role and every word of every author (or its
`abbreviate()` for first / middle names under `abbreviate_names`) occurs in `str(f.text)`; likewise the editors of a
proceedings entry that has an editor. -/
theorem C07_shipped_names_shown (cfg : StyleConfig) (dec : List (Str × Str)) (es : List PEntry) (cites : Option (List Str))
    (mc : Int) (rep : List Report) (fs : List Formatted) (hnd : (es.map (·.key)).Nodup)
    (h : formatBibliographyShipped cfg dec es cites mc = some (rep, .ok fs)) :
    ∀ f ∈ fs, ∃ e ∈ es, f.key = e.key ∧
      ∀ ty role, (((ty, role) ∈ spineAlways ∧ e.type = ty.toList) ∨
          (ty = "proceedings" ∧ role = "editor" ∧ e.type = ty.toList ∧ hasEditor e = true)) →
        ∃ nm ps, (e.roles.find? fun q => lower q.1 = lower role.toList) = some (nm, ps) ∧
          ∀ p ∈ ps,
            (∀ w ∈ p.first ++ p.middle, ∃ x, fromLatex (decodeOf dec w) = .ok x ∧
              toStr (if cfg.abbr then abbreviate x else x) <:+: toStr f.text) ∧
            (∀ w ∈ p.prelast ++ p.last ++ p.lineage, ∃ x, fromLatex (decodeOf dec w) = .ok x ∧
              toStr x <:+: toStr f.text) := by
  intro f hf
  obtain ⟨e, hes, hk, hall⟩ := C07_entry_names_shown cfg dec es cites mc rep fs hnd h f hf
  refine ⟨e, hes, hk, fun ty role hcase => ?_⟩
  have hsome : ∃ t, getTemplate e = some t := by
    have hty : e.type = ty.toList := by rcases hcase with ⟨_, h⟩ | ⟨_, _, h, _⟩ <;> exact h
    have hin : ty ∈ templateTable.map (·.1) := by
      rcases hcase with ⟨hm, _⟩ | ⟨rfl, _⟩
      · have : ∀ p ∈ spineAlways, p.1 ∈ templateTable.map (·.1) := by decide +kernel
        exact this _ hm
      · decide +kernel
    have := (C07_shipped_types.2.1 e)
    rw [← C07_shipped_types.1, hty] at this
    have hc : (templateTable.map fun p => p.1.toList).contains ty.toList = true := by
      simp only [List.contains_eq_mem, List.mem_map, decide_eq_true_eq]
      obtain ⟨q, hq, rfl⟩ := List.mem_map.1 hin
      exact ⟨q, hq, rfl⟩
    rw [hc] at this
    exact Option.isSome_iff_exists.1 this
  obtain ⟨t, ht⟩ := hsome
  have hsp := C07_shipped_spine e t ht
  rcases hcase with ⟨hm, hty⟩ | ⟨rfl, rfl, hty, hed⟩
  · exact hall t role.toList ht (hsp.1 (ty, role) hm hty)
  · exact hall t "editor".toList ht (hsp.2 hty hed)

namespace C07Ex
/-- `@article{S, author = {de Sartre, Jr, Jean-Paul}, year = 2001, title = {T}, journal = {J}}` -/
def sartreArt : PEntry :=
  { key := s "S", type := s "article",
    fields := CIDict.ofPairs [(s "year", s "2001"), (s "title", s "T"), (s "journal", s "J")],
    persons := CIDict.ofPairs [(s "author", [sartre, { first := [s "A"], last := [s "Abel"] }])] }
end C07Ex

theorem C07_entry_names_shown_nonvacuous :
    -- an article by "de Sartre, Jr, Jean-Paul" and "A Abel" through the whole shipped run: distinct keys, the article
    -- template, its author node on the spine, the role found; the run succeeds with and without abbreviate_names
    ([sartreArt].map (·.key)).Nodup ∧ getTemplate sartreArt = some articleTemplate ∧
    onSpine (s "author") articleTemplate = true ∧
    (sartreArt.roles.find? fun q => lower q.1 = lower (s "author")).isSome = true ∧
    (formatBibliographyShipped ⟨.plain, .number, .none, true⟩ [] [sartreArt] none 2).map view
      = some (.inr [(s "S", s "1", s "J.-P. de<nbsp>Sartre, Jr and A.<nbsp>Abel.<newblock>T.<newblock>J, 2001.")]) ∧
    (formatBibliographyShipped ⟨.lastfirst, .alpha, .authorYearTitle, false⟩ [] [sartreArt] none 2).map view
      = some (.inr [(s "S", s "dSA01", s "de<nbsp>Sartre, Jr, Jean-Paul and Abel, A.<newblock>T.<newblock>J, 2001.")]) := by
  refine ⟨by decide +kernel, by rfl, by decide +kernel, by decide +kernel, by decide +kernel, by decide +kernel⟩

theorem C07_spine_names_shown_nonvacuous :
    -- the hypotheses of the evaluator-level theorem on the same entry: the plain style builds a table of name templates,
    -- the article template evaluates in that context (fuel 20), the author node is on the spine
    (match personTemplatesOf .plain [] true sartreArt.roles with
      | .ok pts => (eval 20 { entry := sartreArt.toEntry, db := none, personTemplates := pts } articleTemplate).toOption.map toStr
      | .error _ => none)
      = some (s "J.-P. de<nbsp>Sartre, Jr and A.<nbsp>Abel.<newblock>T.<newblock>J, 2001.") ∧
    onSpine (s "author") articleTemplate = true := by decide +kernel

theorem C07_shipped_spine_nonvacuous :
    -- a template on which the notion is false: the author of a book is reached through `first_of` / `optional` only
    spineAlways.length = 8 ∧ onSpine (s "author") (bookTemplate ⟨false, false⟩) = false ∧
    onSpine (s "editor") (bookTemplate ⟨true, false⟩) = false ∧ onSpine (s "author") miscTemplate = false ∧
    onSpine (s "editor") (proceedingsTemplate ⟨true, true⟩) = true := by decide +kernel

theorem C07_shipped_names_shown_nonvacuous :
    -- the case hypothesis of the composed theorem on the one-article database, whose shipped run succeeds
    (("article", "author") ∈ spineAlways ∧ sartreArt.type = "article".toList) ∧
    ((formatBibliographyShipped ⟨.plain, .number, .none, true⟩ [] [sartreArt] none 2).map fun r => r.2.toOption.isSome)
      = some true := by
  refine ⟨by decide +kernel, by decide +kernel⟩

end Pybtex.Props
