/-
C11 (extension) — the classes of `pybtex/bibtex/names.py` function by function
(`Model/NameFormatFns.lean`) against the fused model the property theorems of `Props/C11.lean`
are stated on; the abbreviation primitive against the C12 model; the `format.name$` built-in
through the two `memoize` caches of `builtins.py` (C18 model) against `formatNth`.
-/
import PybtexModel.Lemmas.NameFormat
import PybtexModel.Model.NameFormatFns
import PybtexModel.Model.TeXStringU
import PybtexModel.Lemmas.World

namespace Pybtex.Props
open Pybtex Pybtex.NFChars Pybtex.NameFormat

/-! ### `NamePart.__init__` + `NamePart.format` = the fused `formatPart` -/

/-- `NamePart(format_list).format(person)` in two steps (build the object, then format) is the
fused model `formatPart`, for EVERY person, pre-text, letter run, separator and post-text —
also for letter runs no parser produces (`fl`, `xyz`: both end in the internal outcome
`BibTeXNameFormatError`); the only exclusion is the empty string as letter run (`''` instead of
`None`), which `NamePart.__init__` treats as `None` and the fused model does not know. -/
theorem C11_namepart_factored (person : Person) (pre : Str) (fc delim : Option Str) (post : Str)
    (h : fc ≠ some []) :
    formatPart person pre fc delim post =
      (match mkNamePart pre fc delim post with
       | .error e => .error e
       | .ok np => np.format person) := by
  cases fc with
  | none =>
    by_cases hsw : pre ≠ [] ∧ post = []
    · simp only [formatPart, mkNamePart, fcTruthy, NamePartRec.format, Option.isNone_none, Option.isSome_none,
        Bool.not_false, Bool.false_eq_true, false_and, if_false, if_true,
        List.head?_nil, Bool.not_true, true_and, if_pos hsw]
      cases h2 : endsWith pre ['~', '~'] <;> cases h1 : endsWith pre ['~'] <;> simp <;>
        (cases delim <;> simp only [] <;> repeat' (first | rfl | (split <;> simp_all)))
    · simp only [formatPart, mkNamePart, fcTruthy, NamePartRec.format, Option.isNone_none, Option.isSome_none,
        Bool.not_false, Bool.false_eq_true, false_and, if_false, if_true,
        List.head?_nil, Bool.not_true, true_and, if_neg hsw]
      cases h2 : endsWith post ['~', '~'] <;> cases h1 : endsWith post ['~'] <;> simp <;>
        (cases delim <;> simp only [] <;> repeat' (first | rfl | (split <;> simp_all)))
  | some f =>
    have hf : f ≠ [] := fun e => h (by rw [e])
    have htr : fcTruthy (some f) = true := by
      cases f with
      | nil => exact absurd rfl hf
      | cons a r => rfl
    simp only [formatPart, mkNamePart, htr, NamePartRec.format, Option.isNone_some, Bool.not_true,
      Bool.false_eq_true, false_and, if_false, if_neg hf, Bool.not_false, true_and]
    by_cases h1 : (lower f).length = 1
    · obtain ⟨c, hc⟩ : ∃ c, lower f = [c] := by
        cases hl : lower f with
        | nil => rw [hl] at h1; cases h1
        | cons a r =>
          cases r with
          | nil => exact ⟨a, rfl⟩
          | cons b r' => rw [hl] at h1; simp at h1
      simp only [hc, List.length_singleton, if_true, List.head?_cons, Option.isSome_some, true_and]
      cases person.getPart c with
      | none => rfl
      | some names =>
        simp only []
        by_cases hn : names = []
        · simp [hn]
        · simp only [if_neg hn]
          cases h2 : endsWith post ['~', '~'] <;> cases h1 : endsWith post ['~'] <;> simp <;>
        (cases delim <;> simp only [] <;> repeat' (first | rfl | (split <;> simp_all)))
    · simp only [if_neg h1]
      by_cases h2 : (lower f).length = 2 ∧ (lower f).head? = (lower f).getLast?
      · simp only [if_pos h2]
        obtain ⟨c, hc⟩ : ∃ c, (lower f).head? = some c := by
          cases hl : lower f with
          | nil => rw [hl] at h2; simp at h2
          | cons a r => exact ⟨a, rfl⟩
        simp only [hc, Option.isSome_some, true_and, Bool.false_eq_true, if_false]
        cases person.getPart c with
        | none => rfl
        | some names =>
          simp only []
          by_cases hn : names = []
          · simp [hn]
          · simp only [if_neg hn]
            cases h2 : endsWith post ['~', '~'] <;> cases h1 : endsWith post ['~'] <;> simp <;>
        (cases delim <;> simp only [] <;> repeat' (first | rfl | (split <;> simp_all)))
      · simp only [if_neg h2]

theorem C11_namepart_factored_nonvacuous :
    mkNamePart ", ".toList (some "F".toList) none ".~".toList = .ok ⟨", ".toList, some 'f', true, none, ".".toList, .one⟩ ∧
    mkNamePart "x~~".toList none none [] = .ok ⟨[], none, false, none, "x".toList, .two⟩ ∧
    mkNamePart [] (some "fl".toList) none [] = .error .internal ∧
    (∀ np, mkNamePart ", ".toList (some "F".toList) none ".~".toList = .ok np →
      np.format { first := ["Jean-Paul".toList], last := ["Sartre".toList] } = .ok ", J.-P. ".toList) := by
  refine ⟨by decide +kernel, by decide +kernel, by decide +kernel, ?_⟩
  intro np h
  have e : mkNamePart ", ".toList (some "F".toList) none ".~".toList = .ok ⟨", ".toList, some 'f', true, none, ".".toList, .one⟩ := by
    decide +kernel
  rw [e] at h
  cases h
  decide +kernel

/-! ### `NameFormat.__init__`: the parser's parts become objects -/

theorem mkNamePart_of_partOk {pre : Str} {fc delim : Option Str} {post : Str}
    (h : PartOk (.part pre fc delim post)) : fc ≠ some [] ∧ ∃ np, mkNamePart pre fc delim post = .ok np := by
  cases fc with
  | none => exact ⟨by simp, _, rfl⟩
  | some run =>
    simp only [PartOk] at h
    rw [formatCharsOk_eq] at h
    have hne : run ≠ [] := by
      intro e
      rw [e] at h
      revert h
      decide
    refine ⟨by simpa using hne, ?_⟩
    simp only [Spec.legalLetters, List.contains_eq_mem, List.mem_cons, List.not_mem_nil, or_false,
      decide_eq_true_eq] at h
    simp only [mkNamePart, if_neg hne]
    rcases h with h | h | h | h | h | h | h | h <;> rw [h] <;> exact ⟨_, rfl⟩

theorem toObjs_format {ps : List FmtPart} (h : ∀ p ∈ ps, PartOk p) :
    ∃ os, toObjs ps = .ok os ∧ os.length = ps.length ∧ ∀ person, formatObjs person os = formatParts person ps := by
  induction ps with
  | nil => exact ⟨[], rfl, rfl, fun _ => rfl⟩
  | cons p r ih =>
    obtain ⟨os, h1, h2, h3⟩ := ih (fun q hq => h q (List.mem_cons_of_mem _ hq))
    have hp := h p (List.mem_cons_self ..)
    cases p with
    | text t =>
      refine ⟨.text t :: os, by simp [toObjs, toObj, h1], by simp [h2], ?_⟩
      intro person
      simp only [formatObjs, FmtObj.format, formatParts, h3]
      cases formatParts person r <;> rfl
    | part pre fc delim post =>
      obtain ⟨hne, np, hnp⟩ := mkNamePart_of_partOk hp
      refine ⟨.part np :: os, by simp [toObjs, toObj, hnp, h1], by simp [h2], ?_⟩
      intro person
      have hf := C11_namepart_factored person pre fc delim post hne
      rw [hnp] at hf
      simp only [formatObjs, FmtObj.format, formatParts, h3, hf]
      cases np.format person with
      | error e => rfl
      | ok s0 => simp only []; cases formatParts person r <;> rfl

/-- `NameFormat(format)` (the object with its `parts`) against the fused model, for EVERY format
string: a syntax error of the parser is the error of the constructor; otherwise the constructor
succeeds (`BibTeXNameFormatError` unreachable) with one object per parsed part, and formatting
ANY person — any five token lists, not only those read from a name string — with the objects
gives what the fused `formatParts` gives on the parsed parts. -/
theorem C11_nameformat_objects (fmt : Str) :
    (∀ e, parseFormat fmt = .error e → nameFormatParts fmt = .error e) ∧
    (∀ ps, parseFormat fmt = .ok ps →
      ∃ os, nameFormatParts fmt = .ok os ∧ os.length = ps.length ∧
        ∀ person, formatObjs person os = formatParts person ps ∧
          formatPersonWith person fmt = formatParts person ps) := by
  constructor
  · intro e h
    simp only [nameFormatParts, h]
  · intro ps h
    obtain ⟨os, h1, h2, h3⟩ := toObjs_format (parseFormat_partOk h)
    refine ⟨os, by simp only [nameFormatParts, h, h1], h2, ?_⟩
    intro person
    refine ⟨h3 person, ?_⟩
    simp only [formatPersonWith, nameFormatParts, h, h1, h3 person]

theorem C11_nameformat_objects_nonvacuous :
    nameFormatParts "a{, f.~}{ll{-}~~}".toList =
      .ok [.text "a".toList, .part ⟨", ".toList, some 'f', true, none, ".".toList, .one⟩,
           .part ⟨[], some 'l', false, some "-".toList, [], .two⟩] ∧
    nameFormatParts "{fl}".toList = .error .illegalLetters ∧
    formatPersonWith { first := ["".toList, "Al Bob".toList], last := ["X-Y".toList, "Z".toList] } "a{, f.~}{ll{-}~~}".toList =
      .ok "a, .~A. X-Y-Z~".toList := by
  decide +kernel

/-- `format_name(name, format)` computed through the objects (`NameFormat(format).format(name)`
as the code does it) is the fused model the property theorems are stated on, for every name and
every format string. -/
theorem C11_objects_match_fused (name fmt : Str) : formatNameObj name fmt = formatName name fmt := by
  obtain ⟨he, hk⟩ := C11_nameformat_objects fmt
  cases hp : parseFormat fmt with
  | error e => simp only [formatNameObj, formatName, he e hp, hp]
  | ok ps =>
    obtain ⟨os, h1, _, h3⟩ := hk ps hp
    simp only [formatNameObj, formatName, h1, hp]
    cases mkPerson name [] [] [] [] [] with
    | error e => cases e <;> rfl
    | ok pr =>
      obtain ⟨person, rep⟩ := pr
      simp only [(h3 person).1]
      cases formatParts person ps <;> rfl

/-! ### the abbreviation primitive is the C12 one -/

theorem firstLetterAuxU_eq_G (toks : List Tok) : firstLetterAuxU toks = TeXU.firstLetterAuxG TeXU.uniOps toks := by
  induction toks with
  | nil => rfl
  | cons t r ih =>
    obtain ⟨t, d⟩ := t
    simp only [firstLetterAuxU, TeXU.firstLetterAuxG, ih]
    rfl

/-- `bibtex_first_letter` / `bibtex_abbreviate` as C11 uses them (`Model/NameFormatChars.lean`)
are, for every string and every separator, the Unicode-aware primitives of the C12 model
(`Model/TeXStringU.lean` with the interpreter's tables), i.e. the functions that C12 ties to
`pybtex.bibtex.utils` at function level and specifies (`C12_first_letter_spec`). -/
theorem C11_abbreviate_is_C12 (s : Str) (delim : Option Str) :
    bibtexFirstLetterU s = TeXU.bibtexFirstLetterG TeXU.uniOps s ∧
    bibtexAbbreviateU s delim = TeXU.bibtexAbbreviateG TeXU.uniOps s delim := by
  have h1 : bibtexFirstLetterU = TeXU.bibtexFirstLetterG TeXU.uniOps := by
    funext x
    simp only [bibtexFirstLetterU, TeXU.bibtexFirstLetterG]
    cases scan x with
    | none => rfl
    | some toks => simp only [Option.map_some, firstLetterAuxU_eq_G]
  exact ⟨by rw [h1], by simp only [bibtexAbbreviateU, TeXU.bibtexAbbreviateG, h1]⟩

theorem C11_abbreviate_is_C12_nonvacuous :
    bibtexAbbreviateU "Jean-{\\'E}mile--Ébert".toList none = some "J.-{\\'E}.-É".toList ∧
    TeXU.bibtexAbbreviateG TeXU.uniOps "Jean-{\\'E}mile--Ébert".toList (some []) = some "J{\\'E}É".toList := by
  decide +kernel

/-! ### the `format.name$` built-in through the two `memoize` caches -/

/-- tag of a format error inside the C18 world (its `Err.other`) -/
def c11ErrTag : FmtErr → Str
  | .unbalanced => "UnbalancedBraceError".toList
  | .prematureEOF => "PrematureEOF".toList
  | .tokenRequired => "TokenRequired".toList
  | .illegalLetters => "PybtexSyntaxError".toList
  | .tooDeep => "BibTeXError".toList
  | .internal => "INTERNAL".toList

/-- `format_bibtex_name(name, format)` under `capture()` as the C18 world sees it: the formatted
string with the problems reported on the way (`InvalidNameString` for too many commas), or the
exception. -/
def c11One (name fmt : Str) : Proc.MRes Proc.Err (Str × List Proc.Err) :=
  match formatName name fmt with
  | .ok (s, rep) => .val (s, if rep then [.invalidName (strip name)] else [])
  | .error e => .raised (.other (c11ErrTag e))

/-- COMPOSITION with the C18 model of `builtins.py` (`_split_names` and
`_format_name_and_reports` behind `memoize`, capacity `Gen.memoCapacity`, FIFO eviction): with
`split_name_list` and `format_name` instantiated by the C11 models, in EVERY state of the two
caches that satisfies the `memoize` invariant (every state reachable from a fresh interpreter:
`C18_caches_invariant`) and under `capture()`, the built-in on `names n fmt` returns exactly what
the cache-free `formatNth` says: the empty string and the report `there is no name number n` for
a number outside `1..count`; the formatted n-th name and — on a cache hit as on a miss — the
too-many-commas report iff `formatNth` has it; the error of the format string otherwise, with
nothing reported. -/
theorem C11_builtin_through_caches (F : Proc.Fns) (hsplit : F.splitNames = splitNameList)
    (hone : F.formatOne = c11One) (w : Proc.World) (hw : Proc.CachesInv F w)
    (l : List Proc.Err) (hc : w.captured = some l) (names : Str) (n : Int) (fmt : Str) :
    let r := Proc.formatNameBuiltin F w ⟨names, n, fmt⟩
    match formatNth names n fmt with
    | .ok .noSuchName => r.2 = .val [] ∧ r.1.captured = some (l ++ [.noSuchName n names])
    | .ok (.formatted s rep) =>
      r.2 = .val s ∧ ∃ name, (splitNameList names)[(n - 1).toNat]? = some name ∧
        r.1.captured = some (l ++ if rep then [.invalidName (strip name)] else [])
    | .error e => r.2 = .raised (.other (c11ErrTag e)) ∧ r.1.captured = some l := by
  intro r
  obtain ⟨sc, hsc, e⟩ := Proc.formatNameBuiltin_eq F hw ⟨names, n, fmt⟩
  have hr : r = Proc.builtinAfterSplit F w ⟨names, n, fmt⟩ sc := e
  rw [hr]
  simp only [Proc.builtinAfterSplit, formatNth, hsplit]
  by_cases hn : 1 ≤ n ∧ n ≤ ((splitNameList names).length : Int)
  · have hnn' : ¬ ¬ (1 ≤ n ∧ n ≤ ((splitNameList names).length : Int)) := fun h => h hn
    simp only [if_pos hn, if_neg hnn']
    have hlt : (n - 1).toNat < (splitNameList names).length := by omega
    have hnn : ¬ (n - 1 < 0) := by omega
    have hidx : (splitNameList names)[(n - 1).toNat]? = some (splitNameList names)[(n - 1).toNat] :=
      List.getElem?_eq_getElem hlt
    obtain ⟨fc, sc', _, _, e2⟩ :=
      Proc.formatNameCall_eq F (w := { w with splitCache := sc }) ⟨hsc, hw.fmt⟩ ⟨names, n, fmt⟩
    rw [e2]
    have hg : Proc.gFmt F ⟨names, n, fmt⟩ = c11One (splitNameList names)[(n - 1).toNat] fmt := by
      simp only [Proc.gFmt, hsplit, Proc.pyIndex, if_neg hnn, hidx, hone]
    rw [hg, hidx]
    simp only [c11One]
    cases formatName (splitNameList names)[(n - 1).toNat] fmt with
    | error e => simp only []; exact ⟨by first | rfl | trivial, hc⟩
    | ok p =>
      obtain ⟨s, rep⟩ := p
      cases rep with
      | false =>
        simp only [Bool.false_eq_true, if_false, Proc.reportAll, List.append_nil]
        exact ⟨by first | rfl | trivial, _, rfl, hc⟩
      | true =>
        simp only [if_true, Proc.reportAll, Proc.reportK, Proc.report, hc]
        exact ⟨by first | rfl | trivial, _, rfl, by first | rfl | trivial⟩
  · simp only [if_neg hn, if_pos hn, Proc.reportK, Proc.report, hc]
    exact ⟨by first | rfl | trivial, by first | rfl | trivial⟩

/-- the C18 world with the C11 models in the two slots -/
def c11Fns : Proc.Fns := { Proc.toyFns with splitNames := splitNameList, formatOne := c11One }

/-- a fresh interpreter under `capture()`, then the same call twice (miss, then hit): both times
the second name with its report; name number 3 of a two-name list; a malformed format -/
theorem C11_builtin_through_caches_nonvacuous :
    let w0 : Proc.World := { Proc.World.fresh with captured := some [] }
    let key : Proc.FmtKey := ⟨"A B and a, b, c, d".toList, 2, "{ff~}{ll}".toList⟩
    let r1 := Proc.formatNameBuiltin c11Fns w0 key
    let r2 := Proc.formatNameBuiltin c11Fns r1.1 key
    c11Fns.splitNames = splitNameList ∧ c11Fns.formatOne = c11One ∧ Proc.CachesInv c11Fns w0 ∧
    formatNth key.names 2 key.fmt = .ok (.formatted "c~d a".toList true) ∧
    r1.2 = .val "c~d a".toList ∧ r1.1.captured = some [.invalidName "a, b, c, d".toList] ∧
    r2.2 = .val "c~d a".toList ∧
    r2.1.captured = some [.invalidName "a, b, c, d".toList, .invalidName "a, b, c, d".toList] ∧
    formatNth key.names 3 key.fmt = .ok .noSuchName ∧
    formatNth key.names 1 "{ff~}{ll".toList = .error .prematureEOF := by
  refine ⟨rfl, rfl, ⟨Proc.Memo.inv_empty _ _, Proc.Memo.inv_empty _ _⟩, ?_⟩
  decide +kernel
/-! ### any `Person` object, not only one read from a name string -/

/-- `NameFormat(format)` applied to ANY person object — five arbitrary token lists: tokens may be
empty, contain blanks, commas or unbalanced braces, as a `Person` built attribute by attribute
can have them — gives exactly what the reference rule (`Spec/NameFormat.lean`: grammar +
formatting rule on the parsed shape) gives on that person: the same string; the nesting-limit
error exactly where the rule is undefined; a syntax error exactly when the format string is
outside the grammar; never an internal error.  (`C11_matches_spec` is the instance
`person = Person(name)`.) -/
theorem C11_any_person_matches_spec (person : Person) (fmt : Str) :
    match formatPersonWith person fmt with
    | .ok s => ∃ pieces, Spec.NameFormat.parse fmt = some pieces ∧
        Spec.NameFormat.formatPieces person pieces = some s
    | .error .tooDeep => ∃ pieces, Spec.NameFormat.parse fmt = some pieces ∧
        Spec.NameFormat.formatPieces person pieces = none
    | .error .internal => False
    | .error _ => Spec.NameFormat.parse fmt = none := by
  obtain ⟨he, hk⟩ := C11_nameformat_objects fmt
  rw [parse_eq]
  cases hpf : parseFormat fmt with
  | error e =>
    have hni := parseFormat_not_internal fmt
    rw [hpf] at hni
    have h1 : formatPersonWith person fmt = .error e := by
      simp only [formatPersonWith, he e hpf]
    rw [h1]
    cases e <;> simp_all
  | ok parts =>
    have hok := parseFormat_partOk hpf
    obtain ⟨pieces, hpieces⟩ := toSpecPieces_partOk hok
    obtain ⟨os, _, _, h3⟩ := hk parts hpf
    rw [(h3 person).2, formatParts_eq person hok hpieces]
    simp only [hpieces]
    cases hfp : Spec.NameFormat.formatPieces person pieces with
    | none => exact ⟨pieces, rfl, hfp⟩
    | some s => exact ⟨pieces, rfl, hfp⟩

/-- a person no name string yields: an empty first token, a token with a blank, a lineage token
with a comma -/
theorem C11_any_person_matches_spec_nonvacuous :
    formatPersonWith { first := ["".toList, "Al Bob".toList], last := ["X-Y".toList], lineage := ["a, b".toList] }
      "{f.~}{ll}{, jj}".toList = .ok ".~A. X-Y, a, b".toList ∧
    (∀ name, mkPerson name [] [] [] [] [] ≠
      .ok ({ first := ["".toList, "Al Bob".toList], last := ["X-Y".toList], lineage := ["a, b".toList] }, false)) := by
  refine ⟨by decide +kernel, ?_⟩
  intro name h
  exact mkPerson_tokens_ne_nil h .first [] (by simp [Spec.NameFormat.tokens]) rfl

/-! ### malformed format strings at the built-in -/

/-- The built-in never formats with a malformed format string: for EVERY name list and every
name number inside `1..count` a malformed format (`Spec.wellformed fmt = false`, read off the
string) ends in a syntax error (not the nesting limit, not an internal error); the only way past
it is a name number outside the range, which yields the no-such-name warning and the empty
string before the format is looked at (second half: for every format, well-formed or not). -/
theorem C11_nth_malformed_rejected (names : Str) (n : Int) (fmt : Str) (h : Spec.wellformed fmt = false) :
    ((1 ≤ n ∧ n ≤ ((splitNameList names).length : Int)) →
      ∃ e, formatNth names n fmt = .error e ∧ e ≠ .internal ∧ e ≠ .tooDeep) ∧
    (¬ (1 ≤ n ∧ n ≤ ((splitNameList names).length : Int)) → formatNth names n fmt = .ok .noSuchName) := by
  have hw := okRest_wellformed fmt
  rw [h] at hw
  constructor
  · intro hn
    cases hp : parseFormat fmt with
    | ok ps => rw [hp] at hw; cases hw
    | error e =>
      have hni := parseFormat_not_internal fmt
      rw [hp] at hni
      have hlt : (n - 1).toNat < (splitNameList names).length := by omega
      refine ⟨e, ?_, by simpa using hni.1, by simpa using hni.2⟩
      have hnn : ¬ ¬ (1 ≤ n ∧ n ≤ ((splitNameList names).length : Int)) := fun h' => h' hn
      simp only [formatNth, if_neg hnn, List.getElem?_eq_getElem hlt, formatName, hp]
  · intro hn
    simp only [formatNth, if_pos hn]

theorem C11_nth_malformed_rejected_nonvacuous :
    Spec.wellformed "{ff~}{lll}".toList = false ∧
    formatNth "A B and C D".toList 2 "{ff~}{lll}".toList = .error .illegalLetters ∧
    formatNth "A B and C D".toList 3 "{ff~}{lll}".toList = .ok .noSuchName := by
  decide +kernel

/-! ### `NamePart.__repr__` / `NamePart.__eq__` (the doctests of `NameFormat` are written with them) -/

theorem takeWhile_dropWhile_nil {α} (p : α → Bool) (l : List α) : (l.dropWhile p).takeWhile p = [] := by
  induction l with
  | nil => rfl
  | cons a r ih => by_cases h : p a = true <;> simp [h, ih]

theorem trailingTies_rstrip (s : Str) : Spec.NameFormat.trailingTies (rstripTilde s) = 0 := by
  simp only [Spec.NameFormat.trailingTies, rstripTilde, List.reverse_reverse, takeWhile_dropWhile_nil, List.length_nil]

theorem rstrip_rstrip (s : Str) : rstripTilde (rstripTilde s) = rstripTilde s := by
  rw [rstripTilde_eq (rstripTilde s), trailingTies_rstrip]
  simp

theorem endsWith_rstrip (s : Str) : endsWith (rstripTilde s) ['~'] = false ∧ endsWith (rstripTilde s) ['~', '~'] = false := by
  rw [endsWith_one, endsWith_two, trailingTies_rstrip]
  exact ⟨by decide, by decide⟩

def tieOf (post1 : Str) : Tie :=
  if endsWith post1 ['~', '~'] then .two else if endsWith post1 ['~'] then .one else .none

theorem mkNamePart_none_swap (pre : Str) (delim : Option Str) (hpre : pre ≠ []) :
    mkNamePart pre none delim [] = .ok ⟨[], none, false, delim, rstripTilde pre, tieOf pre⟩ := by
  simp [mkNamePart, fcTruthy, hpre, tieOf]

theorem mkNamePart_empty_letters (delim : Option Str) (post : Str) :
    mkNamePart [] (some []) delim post = .ok ⟨[], none, false, delim, rstripTilde post, tieOf post⟩ := by
  simp [mkNamePart, fcTruthy, tieOf]

theorem tieOf_rstrip (s : Str) : tieOf (rstripTilde s) = .none := by
  simp [tieOf, (endsWith_rstrip s).1, (endsWith_rstrip s).2]

/-- `__repr__` followed by the constructor gives back an `==` part — for every part the PARSER
can produce (`PartOk`: a legal letter run, or no letters and an empty post-text); the rebuilt part
has no tie (`__repr__` drops it, `__eq__` does not look at it). -/
theorem C11_namepart_repr_partial (pre : Str) (fc delim : Option Str) (post : Str) (np : NamePartRec)
    (hok : PartOk (.part pre fc delim post)) (h : mkNamePart pre fc delim post = .ok np) :
    ∃ np', mkNamePart np.reprList.1 (some np.reprList.2.1) np.reprList.2.2.1 np.reprList.2.2.2 = .ok np' ∧
      np'.pyEq np = true ∧ np'.tie = .none := by
  cases fc with
  | none =>
    simp only [PartOk] at hok
    obtain ⟨_, hpost⟩ := hok
    subst hpost
    by_cases hpre : pre = []
    · subst hpre
      have e : mkNamePart [] none delim [] = .ok ⟨[], none, false, delim, [], .none⟩ := rfl
      rw [e] at h
      cases h
      exact ⟨⟨[], none, false, delim, [], .none⟩, rfl, by simp [NamePartRec.pyEq], rfl⟩
    · rw [mkNamePart_none_swap pre delim hpre] at h
      cases h
      simp only [NamePartRec.reprList, mkNamePart_empty_letters, rstrip_rstrip, tieOf_rstrip]
      exact ⟨_, rfl, by simp [NamePartRec.pyEq], rfl⟩
  | some run =>
    obtain ⟨hne, _⟩ := mkNamePart_of_partOk hok
    have hrun : run ≠ [] := fun e => hne (by rw [e])
    simp only [PartOk] at hok
    rw [formatCharsOk_eq] at hok
    simp only [Spec.legalLetters, List.contains_eq_mem, List.mem_cons, List.not_mem_nil, or_false,
      decide_eq_true_eq] at hok
    have htr : fcTruthy (some run) = true := by
      cases run with
      | nil => exact absurd rfl hrun
      | cons a r => rfl
    simp only [mkNamePart, htr, if_neg hrun, Bool.not_true, Bool.false_eq_true, false_and, if_false] at h
    rcases hok with hl | hl | hl | hl | hl | hl | hl | hl <;> rw [hl] at h <;> cases h <;>
      simp [NamePartRec.reprList, mkNamePart, fcTruthy, (endsWith_rstrip post).1, (endsWith_rstrip post).2,
        rstrip_rstrip, NamePartRec.pyEq, lower, lowerC]

theorem C11_namepart_repr_partial_nonvacuous :
    PartOk (.part ", ".toList (some "FF".toList) (some "-".toList) ".~".toList) ∧
    mkNamePart ", ".toList (some "FF".toList) (some "-".toList) ".~".toList =
      .ok ⟨", ".toList, some 'f', false, some "-".toList, ".".toList, .one⟩ ∧
    mkNamePart ", ".toList (some "ff".toList) (some "-".toList) ".".toList =
      .ok ⟨", ".toList, some 'f', false, some "-".toList, ".".toList, .none⟩ := by
  refine ⟨?_, by decide +kernel, by decide +kernel⟩
  show formatCharsOk false "FF".toList = true
  decide +kernel

/-- … and not for every format list: with no letters, a pre-text and a post-text of ties only, the
list `__repr__` prints is read back with pre- and post-text swapped (`NamePart(['x', None, None, '~'])`
prints as `NamePart(['x', '', None, ''])`, which is a different part); and `__eq__` calls two parts
equal that format differently (`{f~}` and `{f}` on a one-letter name: `A~` and `A`). -/
theorem C11_namepart_repr_neg :
    (∃ np np', mkNamePart "x".toList none none "~".toList = .ok np ∧
      mkNamePart np.reprList.1 (some np.reprList.2.1) np.reprList.2.2.1 np.reprList.2.2.2 = .ok np' ∧
      np'.pyEq np = false) ∧
    (∃ a b, mkNamePart [] (some "f".toList) none "~".toList = .ok a ∧ mkNamePart [] (some "f".toList) none [] = .ok b ∧
      a.pyEq b = true ∧ a.format { first := ["A".toList] } = .ok "A~".toList ∧ b.format { first := ["A".toList] } = .ok "A".toList) := by
  refine ⟨⟨⟨"x".toList, none, false, none, [], .one⟩, ⟨[], none, false, none, "x".toList, .none⟩, ?_⟩,
          ⟨⟨[], some 'f', true, none, [], .one⟩, ⟨[], some 'f', true, none, [], .none⟩, ?_⟩⟩ <;> decide +kernel

end Pybtex.Props
