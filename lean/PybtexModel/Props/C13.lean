/-
C13 — case-insensitive ordered containers behave like their reference model.

Property theorems only; helper lemmas are in `Lemmas/CIMapU.lean`, the model of the code in
`Model/CIMapU.lean`, the reference model (what the reader has to agree with) in
`Spec/OrderedMapU.lean`.

Every theorem is stated for an ARBITRARY key normaliser `norm : Str → Str`; those that need
anything of it assume exactly `hn : ∀ k, norm (norm k) = norm k`.  The driver runs the model with
`norm := lowerPy` (`str.lower()` of the running interpreter on whole strings, including the
U+0130 expansion and the final-sigma rule); `C13_lower_idempotent` discharges `hn` for it and the
`*_lowerPy` theorems are the instances.  So the only fact about `str.lower()` the C13 theorems rely
on is its idempotence.
-/
import PybtexModel.Lemmas.CIMapU

namespace Pybtex.Props
open Pybtex Pybtex.Uni Pybtex.Uni.CIDict
variable {V : Type} {norm : Str → Str}

/-- The code's two tables stay in lock step — same lower-cased keys in the same order, no
duplicate, every stored spelling lower-cases to its key — from construction (with *any* list of
pairs) through *every* history of operations.  In particular the half-updated state that
`__delitem__` could leave behind (first table changed, `KeyError` from the second) is
unreachable. -/
theorem C13_lockstep (hn : ∀ k, norm (norm k) = norm k) (ps : List (Str × V)) (ops : List (Op V)) :
    CIDict.Inv norm (CIDict.run norm (CIDict.ofPairs norm ps) ops).1 :=
  (run_refines hn (ofPairs_spec ps).1 ops).1

/-- Refinement: every history of operations on the implementation model, started from a
constructor call with ANY list of pairs (repeated keys and case variants included), produces
exactly the results of the reference ordered map started from writing those pairs one after the
other, and ends in a state whose abstraction is the reference state. -/
theorem C13_refines (hn : ∀ k, norm (norm k) = norm k) (ps : List (Str × V)) (ops : List (Op V)) :
    CIDict.abs (CIDict.run norm (CIDict.ofPairs norm ps) ops).1 = (OMap.run norm (OMap.ofPairs norm ps) ops).1 ∧
    (CIDict.run norm (CIDict.ofPairs norm ps) ops).2 = (OMap.run norm (OMap.ofPairs norm ps) ops).2 := by
  have h := ofPairs_spec (norm := norm) ps
  have := run_refines hn h.1 ops
  rw [h.2] at this
  exact this.2

/-- a non-trivial history (constructor pairs with a repeated key between case variants, keys with
U+0130 and a final sigma) -/
theorem C13_refines_nonvacuous :
    (CIDict.run lowerPy (CIDict.ofPairs lowerPy [("A".toList, (1 : Int)), ("a".toList, 2), ("A".toList, 3), ("ΑΣ".toList, 4)])
      [.items, .set "İ".toList 7, .del "ας".toList, .get "i̇".toList, .iter, .modify "a".toList (· + 1), .values]).2
      = [.items [("A".toList, 3), ("ΑΣ".toList, 4)], .unit, .unit, .val 7, .keys ["A".toList, "İ".toList], .unit, .vals [4, 7]] := by
  decide +kernel

/-- Lookups ignore case: two spellings with the same normal form address the same entry in every
operation that takes a key (same result, same state afterwards), and a value written under one
spelling is found under the other. -/
theorem C13_lookup_ignores_case (d : CIDict V) (k k' : Str) (h : norm k = norm k') :
    getItem norm d k = getItem norm d k' ∧ contains norm d k = contains norm d k' ∧
    (∀ x, step norm d (.getD k x) = step norm d (.getD k' x)) ∧
    step norm d (.del k) = step norm d (.del k') ∧
    step norm d (.pop k) = step norm d (.pop k') ∧
    (∀ x, step norm d (.popD k x) = step norm d (.popD k' x)) ∧
    (∀ v, getItem norm (setItem norm d k v) k' = some v) := by
  have e1 : getItem norm d k = getItem norm d k' := by simp only [getItem, h]
  have e2 : delItem norm d k = delItem norm d k' := by simp only [delItem, h]
  have e3 : ∀ x, pop norm d k x = pop norm d k' x := by intro x; simp only [pop, e1, e2]
  refine ⟨e1, by simp only [contains, h], ?_, ?_, ?_, ?_, ?_⟩
  · intro x; simp only [step, getD, e1]
  · simp only [step, e2]
  · simp only [step, e3]
  · intro x; simp only [step, e3]
  · intro v; simp [getItem, setItem, h, dget_dset_same]

/-- Overwriting an existing key keeps its position in the iteration order, replaces the
remembered spelling by the new one, and stores the value. -/
theorem C13_overwrite_keeps_position (d : CIDict V) (hd : CIDict.Inv norm d) (k : Str) (v : V)
    (hk : contains norm d k = true) :
    (∃ pre sp post, iter d = pre ++ sp :: post ∧ norm sp = norm k ∧
        iter (setItem norm d k v) = pre ++ k :: post) ∧
    getItem norm (setItem norm d k v) k = some v ∧ len (setItem norm d k v) = len d := by
  have hs := abs_setItem hd k v
  have hi := inv_setItem hd k v
  refine ⟨?_, ?_, ?_⟩
  · rw [iter_abs hd, iter_abs hi, hs]
    have hwf := (abs_wf hd).1
    have hh : OMap.has norm (CIDict.abs d) k = true := by rw [← contains_abs hd]; exact hk
    generalize CIDict.abs d = m at hh hwf
    induction m with
    | nil => simp [OMap.has, OMap.get] at hh
    | cons e m ih =>
      obtain ⟨l, sp, w⟩ := e
      simp only [OMap.has, OMap.get] at hh
      by_cases hl : l = norm k
      · refine ⟨[], sp, OMap.keys m, by simp [OMap.keys], ?_, by simp [OMap.set, hl, OMap.keys]⟩
        rw [← hl]; exact (hwf (l, sp, w) (by simp)).symm
      · rw [if_neg hl] at hh
        obtain ⟨pre, sp', post, h1, h2, h3⟩ := ih hh (fun e he => hwf e (List.mem_cons_of_mem _ he))
        refine ⟨sp :: pre, sp', post, ?_, h2, ?_⟩
        · simp only [OMap.keys, List.map_cons] at h1 ⊢; simp [h1]
        · simp only [OMap.set, if_neg hl, OMap.keys, List.map_cons] at h3 ⊢; simp [h3]
  · rw [getItem_abs hi, hs]
    generalize CIDict.abs d = m
    induction m with
    | nil => simp [OMap.set, OMap.get]
    | cons e m ih =>
      obtain ⟨l, sp, w⟩ := e
      simp only [OMap.set]
      split
      · rename_i hl; simp [OMap.get, hl]
      · rename_i hl; simp [OMap.get, hl, ih]
  · have h1 : norm k ∈ d.dict.map Prod.fst := (dhas_iff_mem _ _).1 hk
    have : (dset d.dict (norm k) v).length = d.dict.length := by
      have := congrArg List.length (dset_keys_of_mem d.dict (norm k) v h1)
      simpa using this
    simpa [len, setItem] using this

/-- A key that is not present is appended: iteration follows first insertion. -/
theorem C13_first_insertion_order (d : CIDict V) (k : Str) (v : V)
    (hk : contains norm d k = false) (hd : CIDict.Inv norm d) :
    iter (setItem norm d k v) = iter d ++ [k] ∧ getItem norm (setItem norm d k v) k = some v := by
  have hnot : norm k ∉ d.keys.map Prod.fst := by
    rw [← hd.1]
    apply (dget_none_iff d.dict (norm k)).1
    simp only [contains, dhas] at hk
    cases h : dget d.dict (norm k) with
    | none => rfl
    | some x => rw [h] at hk; simp at hk
  constructor
  · simp [iter, setItem, dset_of_not_mem _ _ _ hnot]
  · simp [getItem, setItem, dget_dset_same]

/-- Deleting a present key removes exactly that key: it is gone, every other key keeps its
value, the remaining keys keep their order, and the length drops by one. -/
theorem C13_delete_exact (d : CIDict V) (hd : CIDict.Inv norm d) (k : Str) (hk : contains norm d k = true) :
    (delItem norm d k).2 = true ∧
    contains norm (delItem norm d k).1 k = false ∧
    (∀ k', norm k' ≠ norm k → getItem norm (delItem norm d k).1 k' = getItem norm d k') ∧
    (iter (delItem norm d k).1).Sublist (iter d) ∧
    len (delItem norm d k).1 + 1 = len d := by
  have hkeys : dhas d.keys (norm k) = true := by rw [zipT_has_keys hd.1]; exact hk
  have hk' : dhas d.dict (norm k) = true := hk
  have heq : delItem norm d k = (⟨ddel d.dict (norm k), ddel d.keys (norm k)⟩, true) := by
    simp [delItem, hk', hkeys]
  rw [heq]
  have hmem : norm k ∈ d.dict.map Prod.fst := by
    apply Classical.byContradiction
    intro hn
    have := (dget_none_iff d.dict (norm k)).2 hn
    simp [dhas, this] at hk'
  refine ⟨rfl, ?_, ?_, ?_, ?_⟩
  · simp only [contains, dhas]
    have hn : (d.dict.map Prod.fst).Nodup := by rw [hd.1]; exact hd.2.1
    have := (dget_none_iff _ _).2 (ddel_not_mem d.dict (norm k) hn)
    simp [this]
  · intro k' hne
    simp [getItem, dget_ddel_ne _ _ _ hne]
  · exact (ddel_sublist d.keys (norm k)).map Prod.snd
  · simp only [len]
    have := congrArg List.length (ddel_keys d.dict (norm k))
    simp only [List.length_map] at this
    rw [this, List.length_erase_of_mem hmem]
    have : 0 < (d.dict.map Prod.fst).length := List.length_pos_of_mem hmem
    simp only [List.length_map] at this ⊢
    omega

/-- Length, containment, iteration, `keys()`, `values()`, `items()` and `bool()` always agree with
each other. -/
theorem C13_len_contains_iter_agree (d : CIDict V) (hd : CIDict.Inv norm d) :
    len d = (iter d).length ∧
    (∀ k, contains norm d k = true ↔ norm k ∈ (iter d).map norm) ∧
    (∃ its, items norm d = some its ∧ its.map Prod.fst = iter d ∧
       (∀ p ∈ its, getItem norm d p.1 = some p.2) ∧
       values norm d = some (its.map Prod.snd)) ∧
    keysView d = iter d ∧ (truth d = true ↔ iter d ≠ []) ∧ ((iter d).map norm).Nodup := by
  have hl : (iter d).map norm = d.keys.map Prod.fst := by
    simp only [iter, List.map_map]
    apply List.map_congr_left
    intro e he
    simp [hd.2.2 e he]
  refine ⟨?_, ?_, ?_, rfl, ?_, by rw [hl]; exact hd.2.1⟩
  · simp [len, iter, lock_length hd.1]
  · intro k
    rw [hl, ← hd.1]
    simp only [contains, dhas]
    have := dget_none_iff d.dict (norm k)
    cases h : dget d.dict (norm k) with
    | none => simp [this.1 h]
    | some x =>
      simp only [Option.isSome_some, true_iff]
      apply Classical.byContradiction
      intro hn; rw [this.2 hn] at h; cases h
  · refine ⟨_, items_abs hd, ?_, ?_, ?_⟩
    · rw [iter_abs hd]; simp [OMap.items, OMap.keys]
    · intro p hp
      rw [getItem_abs hd]
      have hwf := abs_wf hd
      generalize CIDict.abs d = m at hp hwf
      induction m with
      | nil => simp [OMap.items] at hp
      | cons e m ih =>
        obtain ⟨l, sp, w⟩ := e
        simp only [OMap.items, List.map_cons, List.mem_cons] at hp
        have hl : l = norm sp := hwf.1 (l, sp, w) (by simp)
        rcases hp with hp | hp
        · subst hp; simp [OMap.get, hl]
        · have hnd := hwf.2
          simp only [List.map_cons, List.nodup_cons] at hnd
          have hne : l ≠ norm p.1 := by
            intro he
            apply hnd.1
            obtain ⟨e', he', hpe⟩ := List.mem_map.1 hp
            have : e'.1 = norm e'.2.1 := hwf.1 e' (List.mem_cons_of_mem _ he')
            rw [he, ← hpe]
            exact List.mem_map.2 ⟨e', he', this⟩
          simp only [OMap.get, if_neg hne]
          exact ih hp ⟨fun e he => hwf.1 e (List.mem_cons_of_mem _ he), hnd.2⟩
    · simp [values, items_abs hd]
  · have : len d = (iter d).length := by simp [len, iter, lock_length hd.1]
    simp only [truth, this, bne_iff_ne, ne_eq, List.length_eq_zero_iff]

/-- Case-lowering: the keys are lower-cased, order and values are kept. -/
theorem C13_lower (hn : ∀ k, norm (norm k) = norm k) (d : CIDict V) (hd : CIDict.Inv norm d) :
    ∃ d', lowered norm d = some d' ∧ CIDict.Inv norm d' ∧ iter d' = (iter d).map norm ∧
      items norm d' = (items norm d).map (fun its => its.map fun p => (norm p.1, p.2)) := by
  obtain ⟨d', h1, h2, h3⟩ := lowered_spec hn hd
  have hwf := (abs_wf hd).1
  refine ⟨d', h1, h2, ?_, ?_⟩
  · rw [iter_abs h2, h3, iter_abs hd]
    simp only [OMap.keys, OMap.lowered, List.map_map]
    apply List.map_congr_left
    intro e he; simp [hwf e he]
  · rw [items_abs h2, h3, items_abs hd]
    simp only [OMap.items, OMap.lowered, List.map_map, Option.map_some]
    congr 1
    apply List.map_congr_left
    intro e he; simp [hwf e he]

/-- Frame: writing or deleting one key leaves the lookup of every other key unchanged. -/
theorem C13_frame (d : CIDict V) (k k' : Str) (v : V) (hne : norm k' ≠ norm k) :
    getItem norm (setItem norm d k v) k' = getItem norm d k' ∧ getItem norm (delItem norm d k).1 k' = getItem norm d k' := by
  constructor
  · simp [getItem, setItem, dget_dset_ne _ _ _ _ hne]
  · unfold delItem
    split
    · split <;> simp [getItem, dget_ddel_ne _ _ _ hne]
    · rfl

/-! ### The defaulting variant -/

/-- `CaseInsensitiveDefaultDict`: every history of operations (including `get`, `setdefault`, `pop`,
`popitem`, `update`, `clear`, `lower()` and the counting idiom `d[k] = f(d[k])`) on the model of the
class, started empty, produces exactly the results of the defaulting reference map `OMap.runD`, and
the two tables stay in lock step. -/
theorem C13_default_refines (hn : ∀ k, norm (norm k) = norm k) (fac : V) (ops : List (Op V)) :
    CIDict.Inv norm (DD.run norm fac empty ops).1 ∧
    CIDict.abs (DD.run norm fac empty ops).1 = (OMap.runD norm fac [] ops).1 ∧
    (DD.run norm fac empty ops).2 = (OMap.runD norm fac [] ops).2 :=
  DD.run_refines hn inv_empty ops

/-- counting with the defaulting variant (absent keys start from the factory value and are not
inserted by being read; `get` / `setdefault` / `pop` behave as in a map) -/
theorem C13_default_refines_nonvacuous :
    (DD.run lowerPy (0 : Int) empty
      [.get "x".toList, .len, .modify "X".toList (· + 1), .modify "x".toList (· + 1), .items,
       .getD "y".toList 5, .setDefault "Y".toList 5, .popD "z".toList 9, .pop "z".toList, .items]).2
      = [.val 0, .nat 0, .unit, .unit, .items [("x".toList, 2)],
         .val 5, .val 5, .val 9, .keyError, .items [("x".toList, 2), ("Y".toList, 5)]] := by
  decide +kernel

/-- What the defaulting reference map is: the SAME ordered map, except that looking up an absent key
yields the default — and leaves the map as it is (nothing is inserted); reading a present key, and
every operation other than `d[k]` / `d[k] = f(d[k])`, is the plain map's. -/
theorem C13_default_no_insert (fac : V) (m : OMap V) :
    (∀ k, OMap.get norm m k = none → OMap.stepD norm fac m (.get k) = (m, .val fac)) ∧
    (∀ k, OMap.get norm m k ≠ none → OMap.stepD norm fac m (.get k) = OMap.step norm m (.get k)) ∧
    (∀ k f, OMap.get norm m k ≠ none → OMap.stepD norm fac m (.modify k f) = OMap.step norm m (.modify k f)) ∧
    (∀ k f, OMap.get norm m k = none →
        OMap.stepD norm fac m (.modify k f) = OMap.step norm m (.set k (f fac))) ∧
    (∀ op, (∀ k, op ≠ .get k) → (∀ k f, op ≠ .modify k f) → OMap.stepD norm fac m op = OMap.step norm m op) := by
  refine ⟨?_, ?_, ?_, ?_, ?_⟩
  · intro k h; simp [OMap.stepD, h]
  · intro k h
    cases hg : OMap.get norm m k with
    | none => exact absurd hg h
    | some v => simp [OMap.stepD, OMap.step, hg]
  · intro k f h
    cases hg : OMap.get norm m k with
    | none => exact absurd hg h
    | some v => simp [OMap.stepD, OMap.step, hg]
  · intro k f h; simp [OMap.stepD, OMap.step, h]
  · intro op h1 h2
    cases op with
    | get k => exact absurd rfl (h1 k)
    | modify k f => exact absurd rfl (h2 k f)
    | _ => rfl

/-- the same on the model of the code: on a reachable state, for an absent key, `d[k]` yields the
factory value and changes nothing, `get` and `pop` yield the caller's default and change nothing,
`pop` without default raises, `setdefault` writes the caller's default -/
theorem C13_default_absent (d : CIDict V) (fac : V) (k : Str) (hk : contains norm d k = false) :
    DD.step norm fac d (.get k) = (d, .val fac) ∧
    (∀ x, DD.step norm fac d (.getD k x) = (d, .val x)) ∧
    (∀ x, DD.step norm fac d (.popD k x) = (d, .val x)) ∧
    DD.step norm fac d (.pop k) = (d, .keyError) ∧
    (∀ x, DD.step norm fac d (.setDefault k x) = (setItem norm d k x, .val x)) := by
  have hg : CIDict.getItem norm d k = none := by
    simp only [contains, dhas] at hk
    simp only [CIDict.getItem]
    cases h : dget d.dict (norm k) with
    | none => rfl
    | some v => rw [h] at hk; simp at hk
  refine ⟨by simp [DD.step, DD.getItem, hg], ?_, ?_, ?_, ?_⟩
  · intro x; simp [DD.step, DD.getD, hk]
  · intro x; simp [DD.step, DD.pop, hk]
  · simp [DD.step, DD.pop, hk]
  · intro x; simp [DD.step, DD.setDefault, hk, DD.getItem, CIDict.getItem, setItem, dget_dset_same]

/-- the hypothesis of `C13_default_absent` holds of a reachable state and a key that is absent up to case -/
theorem C13_default_absent_nonvacuous :
    contains lowerPy (CIDict.ofPairs lowerPy [("A".toList, (1 : Int))]) "b".toList = false ∧
    contains lowerPy (CIDict.ofPairs lowerPy [("A".toList, (1 : Int))]) "a".toList = true := by decide +kernel

/-! ### The set -/

/-- The case-insensitive set: every history of add / discard / remove / pop / clear / `|=` / `-=` /
look-ups / len / iteration / lower() from any initial list behaves like the reference set, and the
set of lower-cased keys stays equal to the key table's domain. -/
theorem C13_set_refines (hn : ∀ k, norm (norm k) = norm k) (init : List Str) (ops : List SOp) :
    CISet.Inv norm (CISet.run norm (CISet.ofList norm init) ops).1 ∧
    CISet.abs (CISet.run norm (CISet.ofList norm init) ops).1 = (OSet.run norm (init.foldl (OSet.add norm) []) ops).1 ∧
    (CISet.run norm (CISet.ofList norm init) ops).2 = (OSet.run norm (init.foldl (OSet.add norm) []) ops).2 := by
  have h := CISet.ofList_spec (norm := norm) init
  have := CISet.run_refines hn h.1 ops
  rw [h.2] at this
  exact this

theorem C13_set_refines_nonvacuous :
    (CISet.run lowerPy (CISet.ofList lowerPy ["Aaa".toList, "aAA".toList, "ΑΣ".toList])
      [.len, .canonical "AAA".toList, .pop "ας".toList, .iter, .ior ["B".toList, "b".toList], .isub ["AAA".toList],
       .canonical "b".toList, .remove "aaa".toList, .clear, .len]).2
      = [.nat 2, .str "aAA".toList, .str "ας".toList, .strs ["aaa".toList], .unit, .unit,
         .str "b".toList, .keyError, .unit, .nat 0] := by
  decide +kernel

/-- The set's length, containment, iteration and remembered spellings agree with each other on every
reachable state: the members are pairwise distinct normal forms, `len` counts them, `in` is
membership of the normal form, and exactly the members have a remembered spelling, which
normalises to the member. -/
theorem C13_set_len_contains_iter_agree (s : CISet) (hs : CISet.Inv norm s) :
    s.len = s.iter.length ∧ s.iter.Nodup ∧
    (∀ k, s.contains norm k = true ↔ norm k ∈ s.iter) ∧
    (∀ k, (∃ sp, s.canonical norm k = some sp ∧ norm sp = norm k) ↔ s.contains norm k = true) ∧
    (s.spellings).map norm = s.iter := by
  obtain ⟨h1, h2, h3⟩ := hs
  have hsp : (s.spellings).map norm = s.iter := by
    simp only [CISet.spellings, CISet.iter, h1, List.map_map]
    apply List.map_congr_left
    intro e he
    simp [h3 e he]
  refine ⟨rfl, by simpa [CISet.iter, h1] using h2, ?_, ?_, hsp⟩
  · intro k; simp [CISet.contains, CISet.iter]
  · intro k
    simp only [CISet.canonical, CISet.contains, h1]
    constructor
    · rintro ⟨sp, hsp', _⟩
      have : dhas s.keys (norm k) = true := by simp [dhas, hsp']
      simpa using (dhas_iff_mem _ _).1 this
    · intro hc
      have hm : norm k ∈ s.keys.map Prod.fst := by simpa using hc
      have hhas := (dhas_iff_mem s.keys (norm k)).2 hm
      simp only [dhas] at hhas
      cases hg : dget s.keys (norm k) with
      | none => rw [hg] at hhas; simp at hhas
      | some sp =>
        refine ⟨sp, rfl, ?_⟩
        have : (norm k, sp) ∈ s.keys := dget_some_mem hg
        exact (h3 _ this).symm

/-- the invariant assumed by `C13_set_len_contains_iter_agree` holds of every constructed set, e.g. one with two spellings of a member -/
theorem C13_set_len_contains_iter_agree_nonvacuous :
    CISet.Inv lowerPy (CISet.ofList lowerPy ["Aaa".toList, "aAA".toList, "b".toList]) ∧
    (CISet.ofList lowerPy ["Aaa".toList, "aAA".toList, "b".toList]).len = 2 :=
  ⟨(CISet.ofList_spec _).1, by decide +kernel⟩

/-! ### The interpreter's `str.lower()` -/

/-- `s.lower().lower() == s.lower()` for the model of `str.lower()` the driver runs with (whole
strings: per-character table, U+0130 expansion, final-sigma rule): the hypothesis `hn` of the
theorems above holds for it. -/
theorem C13_lower_idempotent (s : Str) : lowerPy (lowerPy s) = lowerPy s := lowerPy_idem s

/-- the refinement theorems for the normaliser the driver runs with -/
theorem C13_refines_lowerPy (ps : List (Str × V)) (ops : List (Op V)) (fac : V) (init : List Str) (sops : List SOp) :
    (CIDict.abs (CIDict.run lowerPy (CIDict.ofPairs lowerPy ps) ops).1 = (OMap.run lowerPy (OMap.ofPairs lowerPy ps) ops).1 ∧
     (CIDict.run lowerPy (CIDict.ofPairs lowerPy ps) ops).2 = (OMap.run lowerPy (OMap.ofPairs lowerPy ps) ops).2) ∧
    (CIDict.abs (DD.run lowerPy fac empty ops).1 = (OMap.runD lowerPy fac [] ops).1 ∧
     (DD.run lowerPy fac empty ops).2 = (OMap.runD lowerPy fac [] ops).2) ∧
    (CISet.abs (CISet.run lowerPy (CISet.ofList lowerPy init) sops).1 = (OSet.run lowerPy (init.foldl (OSet.add lowerPy) []) sops).1 ∧
     (CISet.run lowerPy (CISet.ofList lowerPy init) sops).2 = (OSet.run lowerPy (init.foldl (OSet.add lowerPy) []) sops).2) :=
  ⟨C13_refines lowerPy_idem ps ops, (C13_default_refines lowerPy_idem fac ops).2, (C13_set_refines lowerPy_idem init sops).2⟩

end Pybtex.Props
