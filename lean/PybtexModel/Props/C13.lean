/-
C13 — case-insensitive ordered containers behave like their reference model.

Property theorems only; helper lemmas are in `Lemmas/CIMap.lean`, the model of the code in
`Model/CIMap.lean`, the reference model (what the reader has to agree with) in
`Spec/OrderedMap.lean`.
-/
import PybtexModel.Lemmas.CIMapU

namespace Pybtex.Props
open Pybtex Pybtex.Uni Pybtex.Uni.CIDict
variable {V : Type}

/-- The code's two tables stay in lock step — same lower-cased keys in the same order, no
duplicate, every stored spelling lower-cases to its key — from construction (with *any* list of
pairs) through *every* history of operations.  In particular the half-updated state that
`__delitem__` could leave behind (first table changed, `KeyError` from the second) is
unreachable. -/
theorem C13_lockstep (ps : List (Str × V)) (ops : List (Op V)) :
    CIDict.Inv (CIDict.run (CIDict.ofPairs ps) ops).1 :=
  (run_refines (ofPairs_spec ps).1 ops).1

/-- Refinement: every history of operations on the implementation model, started from a
constructor call whose pairs have pairwise distinct (exact) keys, produces exactly the results
of the reference ordered map, and ends in a state whose abstraction is the reference state. -/
theorem C13_refines (ps : List (Str × V)) (hps : (ps.map Prod.fst).Nodup) (ops : List (Op V)) :
    CIDict.abs (CIDict.run (CIDict.ofPairs ps) ops).1 = (OMap.run (OMap.ofPairs ps) ops).1 ∧
    (CIDict.run (CIDict.ofPairs ps) ops).2 = (OMap.run (OMap.ofPairs ps) ops).2 := by
  have h := ofPairs_spec ps
  rw [dofPairs_nodup ps hps] at h
  have := run_refines h.1 ops
  rw [h.2] at this
  exact this.2

/-- the hypotheses of `C13_refines` are satisfiable by a non-trivial history -/
theorem C13_refines_nonvacuous :
    (CIDict.run (CIDict.ofPairs [("Uno".toList, (1 : Int)), ("dos".toList, 2)])
      [.set "UNO".toList 7, .del "Dos".toList, .get "uno".toList, .iter]).2
      = [.unit, .unit, .val 7, .keys ["UNO".toList]] := by decide

theorem C13_lookup_ignores_case (d : CIDict V) (k k' : Str) (h : lowerU k = lowerU k') :
    getItem d k = getItem d k' ∧ contains d k = contains d k' := by
  simp [getItem, contains, h]

/-- Overwriting an existing key keeps its position in the iteration order, replaces the
remembered spelling by the new one, and stores the value. -/
theorem C13_overwrite_keeps_position (d : CIDict V) (hd : CIDict.Inv d) (k : Str) (v : V)
    (hk : contains d k = true) :
    (∃ pre sp post, iter d = pre ++ sp :: post ∧ lowerU sp = lowerU k ∧
        iter (setItem d k v) = pre ++ k :: post) ∧
    getItem (setItem d k v) k = some v ∧ len (setItem d k v) = len d := by
  have hs := abs_setItem hd k v
  have hi := inv_setItem hd k v
  refine ⟨?_, ?_, ?_⟩
  · rw [iter_abs hd, iter_abs hi, hs]
    have hwf := (abs_wf hd).1
    have hh : OMap.has (CIDict.abs d) k = true := by rw [← contains_abs hd]; exact hk
    generalize CIDict.abs d = m at hh hwf
    induction m with
    | nil => simp [OMap.has, OMap.get] at hh
    | cons e m ih =>
      obtain ⟨l, sp, w⟩ := e
      simp only [OMap.has, OMap.get] at hh
      by_cases hl : l = lowerU k
      · refine ⟨[], sp, OMap.keys m, by simp [OMap.keys], ?_, by simp [OMap.set, hl, OMap.keys]⟩
        rw [← hl]; exact (hwf (l, sp, w) (by simp)).symm
      · rw [if_neg hl] at hh
        obtain ⟨pre, sp', post, h1, h2, h3⟩ := ih hh (fun e he => hwf e (List.mem_cons_of_mem _ he))
        refine ⟨sp :: pre, sp', post, ?_, h2, ?_⟩
        · simp only [OMap.keys, List.map_cons] at h1 ⊢; simp [h1]
        · simp only [OMap.set, if_neg hl, OMap.keys, List.map_cons] at h3 ⊢; simp [h3]
  · rw [getItem_abs hi, hs]
    generalize CIDict.abs d = m
    induction m with
    | nil => simp [OMap.set, OMap.get]
    | cons e m ih =>
      obtain ⟨l, sp, w⟩ := e
      simp only [OMap.set]
      split
      · rename_i hl; simp [OMap.get, hl]
      · rename_i hl; simp [OMap.get, hl, ih]
  · have h1 : lowerU k ∈ d.dict.map Prod.fst := (dhas_iff_mem _ _).1 hk
    have : (dset d.dict (lowerU k) v).length = d.dict.length := by
      have := congrArg List.length (dset_keys_of_mem d.dict (lowerU k) v h1)
      simpa using this
    simpa [len, setItem] using this

/-- A key that is not present is appended: iteration follows first insertion. -/
theorem C13_first_insertion_order (d : CIDict V) (k : Str) (v : V)
    (hk : contains d k = false) (hd : CIDict.Inv d) :
    iter (setItem d k v) = iter d ++ [k] ∧ getItem (setItem d k v) k = some v := by
  have hnot : lowerU k ∉ d.keys.map Prod.fst := by
    rw [← hd.1]
    apply (dget_none_iff d.dict (lowerU k)).1
    simp only [contains, dhas] at hk
    cases h : dget d.dict (lowerU k) with
    | none => rfl
    | some x => rw [h] at hk; simp at hk
  constructor
  · simp [iter, setItem, dset_of_not_mem _ _ _ hnot]
  · simp [getItem, setItem, dget_dset_same]

/-- Deleting a present key removes exactly that key: it is gone, every other key keeps its
value, the remaining keys keep their order, and the length drops by one. -/
theorem C13_delete_exact (d : CIDict V) (hd : CIDict.Inv d) (k : Str) (hk : contains d k = true) :
    (delItem d k).2 = true ∧
    contains (delItem d k).1 k = false ∧
    (∀ k', lowerU k' ≠ lowerU k → getItem (delItem d k).1 k' = getItem d k') ∧
    (iter (delItem d k).1).Sublist (iter d) ∧
    len (delItem d k).1 + 1 = len d := by
  have hkeys : dhas d.keys (lowerU k) = true := by rw [zipT_has_keys hd.1]; exact hk
  have hk' : dhas d.dict (lowerU k) = true := hk
  have heq : delItem d k = (⟨ddel d.dict (lowerU k), ddel d.keys (lowerU k)⟩, true) := by
    simp [delItem, hk', hkeys]
  rw [heq]
  have hmem : lowerU k ∈ d.dict.map Prod.fst := by
    apply Classical.byContradiction
    intro hn
    have := (dget_none_iff d.dict (lowerU k)).2 hn
    simp [dhas, this] at hk'
  refine ⟨rfl, ?_, ?_, ?_, ?_⟩
  · simp only [contains, dhas]
    have hn : (d.dict.map Prod.fst).Nodup := by rw [hd.1]; exact hd.2.1
    have := (dget_none_iff _ _).2 (ddel_not_mem d.dict (lowerU k) hn)
    simp [this]
  · intro k' hne
    simp [getItem, dget_ddel_ne _ _ _ hne]
  · exact (ddel_sublist d.keys (lowerU k)).map Prod.snd
  · simp only [len]
    have := congrArg List.length (ddel_keys d.dict (lowerU k))
    simp only [List.length_map] at this
    rw [this, List.length_erase_of_mem hmem]
    have : 0 < (d.dict.map Prod.fst).length := List.length_pos_of_mem hmem
    simp only [List.length_map] at this ⊢
    omega

/-- Length, containment, iteration and `items()` always agree with each other. -/
theorem C13_len_contains_iter_agree (d : CIDict V) (hd : CIDict.Inv d) :
    len d = (iter d).length ∧
    (∀ k, contains d k = true ↔ lowerU k ∈ (iter d).map lowerU) ∧
    (∃ its, items d = some its ∧ its.map Prod.fst = iter d ∧
       ∀ p ∈ its, getItem d p.1 = some p.2) := by
  refine ⟨?_, ?_, ?_⟩
  · simp [len, iter, lock_length hd.1]
  · intro k
    have hl : (iter d).map lowerU = d.keys.map Prod.fst := by
      simp only [iter, List.map_map]
      apply List.map_congr_left
      intro e he
      simp [hd.2.2 e he]
    rw [hl, ← hd.1]
    simp only [contains, dhas]
    have := dget_none_iff d.dict (lowerU k)
    cases h : dget d.dict (lowerU k) with
    | none => simp [this.1 h]
    | some x =>
      simp only [Option.isSome_some, true_iff]
      apply Classical.byContradiction
      intro hn; rw [this.2 hn] at h; cases h
  · refine ⟨_, items_abs hd, ?_, ?_⟩
    · rw [iter_abs hd]; simp [OMap.items, OMap.keys]
    · intro p hp
      rw [getItem_abs hd]
      have hwf := abs_wf hd
      generalize CIDict.abs d = m at hp hwf
      induction m with
      | nil => simp [OMap.items] at hp
      | cons e m ih =>
        obtain ⟨l, sp, w⟩ := e
        simp only [OMap.items, List.map_cons, List.mem_cons] at hp
        have hl : l = lowerU sp := hwf.1 (l, sp, w) (by simp)
        rcases hp with hp | hp
        · subst hp; simp [OMap.get, hl]
        · have hnd := hwf.2
          simp only [List.map_cons, List.nodup_cons] at hnd
          have hne : l ≠ lowerU p.1 := by
            intro he
            apply hnd.1
            obtain ⟨e', he', hpe⟩ := List.mem_map.1 hp
            have : e'.1 = lowerU e'.2.1 := hwf.1 e' (List.mem_cons_of_mem _ he')
            rw [he, ← hpe]
            exact List.mem_map.2 ⟨e', he', this⟩
          simp only [OMap.get, if_neg hne]
          exact ih hp ⟨fun e he => hwf.1 e (List.mem_cons_of_mem _ he), hnd.2⟩

/-- Case-lowering: the keys are lower-cased, order and values are kept. -/
theorem C13_lower (d : CIDict V) (hd : CIDict.Inv d) :
    ∃ d', lowered d = some d' ∧ CIDict.Inv d' ∧ iter d' = (iter d).map lowerU ∧
      items d' = (items d).map (fun its => its.map fun p => (lowerU p.1, p.2)) := by
  obtain ⟨d', h1, h2, h3⟩ := lowered_spec hd
  have hwf := (abs_wf hd).1
  refine ⟨d', h1, h2, ?_, ?_⟩
  · rw [iter_abs h2, h3, iter_abs hd]
    simp only [OMap.keys, OMap.lowered, List.map_map]
    apply List.map_congr_left
    intro e he; simp [hwf e he]
  · rw [items_abs h2, h3, items_abs hd]
    simp only [OMap.items, OMap.lowered, List.map_map, Option.map_some]
    congr 1
    apply List.map_congr_left
    intro e he; simp [hwf e he]

/-- The defaulting variant yields its default for an absent key and stores nothing. -/
theorem C13_default_no_insert (d : CIDict V) (k : Str) (dflt : V) (hk : getItem d k = none) :
    CIDict.step d (.getDefault k dflt) = (d, .val dflt) := by
  simp [CIDict.step, getItemDefault, hk]

/-- Frame: writing or deleting one key leaves the lookup of every other key unchanged. -/
theorem C13_frame (d : CIDict V) (k k' : Str) (v : V) (hne : lowerU k' ≠ lowerU k) :
    getItem (setItem d k v) k' = getItem d k' ∧ getItem (delItem d k).1 k' = getItem d k' := by
  constructor
  · simp [getItem, setItem, dget_dset_ne _ _ _ _ hne]
  · unfold delItem
    split
    · split <;> simp [getItem, dget_ddel_ne _ _ _ hne]
    · rfl

/-- The case-insensitive set: every history of add / discard / remove / lookups / lowerU from
any initial list behaves like the reference set, and the set of lower-cased keys stays equal to
the key table's domain. -/
theorem C13_set_refines (init : List Str) (ops : List SOp) :
    CISet.Inv (CISet.run (CISet.ofList init) ops).1 ∧
    CISet.abs (CISet.run (CISet.ofList init) ops).1 = (OSet.run (init.foldl OSet.add []) ops).1 ∧
    (CISet.run (CISet.ofList init) ops).2 = (OSet.run (init.foldl OSet.add []) ops).2 := by
  have h := CISet.ofList_spec init
  have := CISet.run_refines h.1 ops
  rw [h.2] at this
  exact this

end Pybtex.Props
