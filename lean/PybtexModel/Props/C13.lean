import PybtexModel.Spec.OrderedMap
import PybtexModel.Lemmas.Basic
namespace Pybtex.Props
end Pybtex.Props
