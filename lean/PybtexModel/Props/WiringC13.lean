/-
C13 — what the models of the containers assume about the classes of `pybtex/utils.py`, checked against a table that
`harness/tablegen/c13.py` regenerates from the live classes on every run (`Gen/C13Methods.lean`).  In a module of its own (and
with a name that does not start with `C13`) so that a change of the table fails this statement only.
-/
import PybtexModel.Gen.C13Methods

namespace Pybtex.Props
open Pybtex

/-- [model wiring] The live classes of `pybtex/utils.py` (table regenerated on every run) define exactly the methods the models
were written against: everything else (`get`, `setdefault`, `pop`, `popitem`, `clear`, `update`, `keys`/`items`/`values`, `==`
for `CaseInsensitiveDict`/`OrderedCaseInsensitiveDict`; `remove`, `pop`, `clear`, the operators and comparisons for the set) is a
`collections.abc` mix-in over them, `CaseInsensitiveDefaultDict` overrides `__getitem__`, `get`, `setdefault`, `pop`, `lower`,
the tables are two dicts (`OrderedDict` spellings in the ordered variant) resp. a set and a dict, and `int()` is 0.  A method
added to or removed from a class makes this fail, so the model has to be looked at again. -/
theorem C13_model_wiring :
    Gen.c13Classes =
      [("CaseInsensitiveDict", ["MutableMapping"],
          ["__contains__", "__delitem__", "__getitem__", "__init__", "__iter__", "__len__", "__repr__", "__setitem__", "items_lower", "lower"]),
       ("CaseInsensitiveDefaultDict", ["CaseInsensitiveDict"], ["__getitem__", "__init__", "get", "lower", "pop", "setdefault"]),
       ("OrderedCaseInsensitiveDict", ["CaseInsensitiveDict"], ["__init__", "__repr__"]),
       ("CaseInsensitiveSet", ["MutableSet"],
          ["__contains__", "__init__", "__iter__", "__len__", "__repr__", "add", "discard", "get_canonical_key", "lower"])] ∧
    Gen.c13Tables =
      [("CaseInsensitiveDict", [("_dict", "dict"), ("_keys", "dict")]),
       ("CaseInsensitiveDefaultDict", [("_dict", "dict"), ("_keys", "dict")]),
       ("OrderedCaseInsensitiveDict", [("_dict", "dict"), ("_keys", "OrderedDict")]),
       ("CaseInsensitiveSet", [("_keys", "dict"), ("_set", "set")])] ∧
    Gen.c13IntFactory = 0 := by
  decide

end Pybtex.Props
