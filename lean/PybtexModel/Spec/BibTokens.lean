/-
Reference notions for the token level of the `.bib` reader (C01, round 2): what the regular
expressions of `LowLevelParser` are supposed to match, said without `takeWhile`.
-/
import PybtexModel.Model.BibParse

namespace Pybtex.Bib

/-- the delimiter that closes a quoted / braced literal -/
def closerOf (quoted : Bool) : Char := if quoted then '"' else '}'

/-- the character class of the three patterns of the form `[class]+` -/
def runClass : Pat → Char → Bool
  | .keyParen => fun c => !isWs c && c ≠ ','
  | .keyBrace => fun c => !isWs c && c ≠ ',' && c ≠ '}'
  | .number => isDigit
  | _ => fun _ => false

/-- `v` is a maximal non-empty run of `f` in front of `r` -/
def MaxRun (f : Char → Bool) (v r : Str) : Prop :=
  v ≠ [] ∧ (∀ c ∈ v, f c = true) ∧ ∀ c t, r = c :: t → f c = false

end Pybtex.Bib
