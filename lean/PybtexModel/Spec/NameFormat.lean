/-
C11 reference: what BibTeX's `format.name$` produces, transcribed clause by clause from the
property statement (and the blueprint of DESIGN.md Appendix C), independently of pybtex's
`NameFormatParser` / `NamePart` control flow.

It builds on the C04 notion of a split name (`Person`, `mkPerson`) and on the C12 primitives
`scan` (tokens of a TeX string), `bibtexLen` (text length) and `splitTex .hyphen`.

Two halves:
* the **grammar** of format strings (`parse`):
    format ::= ( level-0 character | `{` part `}` )*
    part   ::= verbatim*                                  -- no letters
             | verbatim* letters [ `{` separator `}` ] verbatim*
    verbatim ::= any character except `{ } _` and letters | `{` balanced text `}`
    letters  ::= one of f ff l ll v vv j jj, in either case
  where "letter" is read as the code does (`isFmtCh`, `Model/NameFormatChars.lean`): a word
  character of the running interpreter (`\w`) other than a decimal digit and `_` — the letters
  of every script and the non-decimal numerics such as `²`; a maximal run of such characters
  at brace level 1 must be one of the eight legal runs (BibTeX itself is an 8-bit program; the
  property is silent about non-ASCII, so the reference follows the code there).  A letter of a
  *name* (first letter when abbreviating) is `str.isalpha` of the interpreter (`isAlphaN`).
* the **formatting rule** on the parsed shape (`formatPart`, `formatPieces`).
-/
import PybtexModel.Model.NameFormatChars

namespace Pybtex.Spec.NameFormat
open Pybtex.NFChars

/-! ### the parsed shape -/

/-- the four parts of a name a format letter refers to -/
inductive Slot | first | von | last | jr
deriving DecidableEq, Repr

def Slot.ofLetter (c : Char) : Option Slot :=
  if c = 'f' then some .first
  else if c = 'v' then some .von
  else if c = 'l' then some .last
  else if c = 'j' then some .jr
  else none

/-- a legal letter run: which name part, and whether in full (`ff`) or abbreviated (`f`) -/
structure Letters where
  slot : Slot
  full : Bool
deriving DecidableEq, Repr

/-- one letter = abbreviated, the same letter twice = in full; case is ignored; nothing else
is a legal brace-level-1 letter run. -/
def decodeLetters (run : Str) : Option Letters :=
  match lower run with
  | [a] => (Slot.ofLetter a).map fun s => ⟨s, false⟩
  | [a, b] => if a = b then (Slot.ofLetter a).map fun s => ⟨s, true⟩ else none
  | _ => none

/-- `{pre letters {sep} post}`; without letters there is only `pre`. -/
structure Part where
  pre : Str
  letters : Option Letters
  sep : Option Str
  post : Str
deriving DecidableEq, Repr

inductive Piece where
  | ch (c : Char)      -- a brace-level-0 character
  | part (p : Part)
deriving DecidableEq, Repr

/-! ### the grammar -/

/-- characters that may stand in the pre- or post-text of a part outside nested braces -/
def isVerbChar (c : Char) : Bool := c ≠ '{' && c ≠ '}' && c ≠ '_' && !isFmtCh c

/-- `group d s`: `s` continues a braced group in which `d` nested groups are open; the text up
to the closing brace of the group, and the input after that brace.  `none`: never closed. -/
def group : Nat → Str → Option (Str × Str)
  | _, [] => none
  | d, c :: r =>
    if c = '}' then
      match d with
      | 0 => some ([], r)
      | d' + 1 => (group d' r).map fun (g, rest) => (c :: g, rest)
    else (group (if c = '{' then d + 1 else d) r).map fun (g, rest) => (c :: g, rest)

/-- `verbatim d s`: the longest prefix of `s` made of verbatim items (verbatim characters and
complete braced groups), with the remaining input; `d` = number of groups open at the start.
A group that is never closed swallows the rest of the input. -/
def verbatim : Nat → Str → Str × Str
  | _, [] => ([], [])
  | 0, c :: r =>
    if c = '{' then let (v, rest) := verbatim 1 r; (c :: v, rest)
    else if isVerbChar c then let (v, rest) := verbatim 0 r; (c :: v, rest)
    else ([], c :: r)
  | d + 1, c :: r =>
    let (v, rest) := verbatim (if c = '{' then d + 2 else if c = '}' then d else d + 1) r
    (c :: v, rest)

/-- a part, read from just after its opening brace up to and including its closing brace;
returns the part and the input after it. -/
def parsePart (s : Str) : Option (Part × Str) :=
  let (pre, s1) := verbatim 0 s
  match s1 with
  | [] => none                                   -- the part is never closed
  | c :: rest =>
    if c = '}' then some (⟨pre, none, none, []⟩, rest)      -- no letters
    else if isFmtCh c then
      match decodeLetters (s1.takeWhile isFmtCh) with
      | none => none                             -- illegal letters
      | some l =>
        let s2 := s1.dropWhile isFmtCh
        -- a braced group *immediately* after the letters is the explicit separator
        let sepRest : Option (Option Str × Str) :=
          match s2 with
          | '{' :: x => (group 0 x).map fun (g, y) => (some g, y)
          | _ => some (none, s2)
        match sepRest with
        | none => none                           -- the separator group is never closed
        | some (sep, s3) =>
          let (post, s4) := verbatim 0 s3
          match s4 with
          | '}' :: rest => some (⟨pre, some l, sep, post⟩, rest)
          | _ => none                            -- a second letter run, `_`, or never closed
    else none                                    -- `_`

theorem group_length {d : Nat} {s g rest : Str} (h : group d s = some (g, rest)) :
    rest.length < s.length := by
  induction s generalizing d g rest with
  | nil => simp [group] at h
  | cons c r ih =>
    simp only [group] at h
    split at h
    · cases d with
      | zero => simp at h; simp [← h.2]
      | succ d' =>
        simp only [Option.map_eq_some_iff] at h
        obtain ⟨⟨g', rest'⟩, h1, h2⟩ := h
        have := ih h1
        simp at h2; simp [← h2.2]; omega
    · simp only [Option.map_eq_some_iff] at h
      obtain ⟨⟨g', rest'⟩, h1, h2⟩ := h
      have := ih h1
      simp at h2; simp [← h2.2]; omega

theorem verbatim_length (d : Nat) (s : Str) : (verbatim d s).2.length ≤ s.length := by
  induction s generalizing d with
  | nil => simp [verbatim]
  | cons c r ih =>
    cases d with
    | zero =>
      simp only [verbatim]
      split
      · have := ih 1; simp; omega
      · split
        · have := ih 0; simp; omega
        · simp
    | succ d =>
      simp only [verbatim]
      have := ih (if c = '{' then d + 2 else if c = '}' then d else d + 1)
      simp; omega

theorem parsePart_length {s rest : Str} {p : Part} (h : parsePart s = some (p, rest)) :
    rest.length < s.length + 1 := by
  unfold parsePart at h
  have h1 := verbatim_length 0 s
  generalize verbatim 0 s = v at h h1
  obtain ⟨pre, s1⟩ := v
  simp only at h h1
  split at h
  · cases h
  · rename_i c rest1
    split at h
    · simp at h; simp [← h.2] at *; omega
    · split at h
      · split at h
        · cases h
        · rename_i l hl
          have h2 : ((c :: rest1).dropWhile isFmtCh).length ≤ (c :: rest1).length :=
            (List.dropWhile_sublist _).length_le
          generalize (c :: rest1).dropWhile isFmtCh = s2 at h h2
          split at h
          · cases h
          · rename_i sep s3 hsr
            have h3 : s3.length ≤ s2.length := by
              split at hsr
              · rename_i x
                simp only [Option.map_eq_some_iff] at hsr
                obtain ⟨⟨g, y⟩, hg, he⟩ := hsr
                have := group_length hg
                simp at he; simp [← he.2]; omega
              · simp at hsr; simp [hsr.2]
            have h4 := verbatim_length 0 s3
            generalize verbatim 0 s3 = w at h h4
            obtain ⟨post, s4⟩ := w
            simp only at h h4
            split at h
            · simp at h; simp [← h.2] at *; omega
            · cases h
      · cases h

/-- the whole format string -/
def parse (s : Str) : Option (List Piece) :=
  match s with
  | [] => some []
  | c :: r =>
    if c = '{' then
      match _h : parsePart r with
      | none => none
      | some (p, rest) => (parse rest).map fun ps => .part p :: ps
    else if c = '}' then none                    -- unbalanced
    else (parse r).map fun ps => .ch c :: ps     -- brace-level-0 text
termination_by s.length
decreasing_by
  · have := parsePart_length _h; simp; omega
  · simp

/-! ### the grammar, generatively

The same grammar as a printer plus a well-formedness predicate on shapes: `Props/C11.lean`
(`C11_grammar_roundtrip`) shows that every format string `render ps` of a well-formed shape
is read back as exactly `ps` — by `parse` and by the parser of the code. -/

/-- `s` is text in which `d` groups are open at the start, every group is closed at the end,
no closing brace is unmatched and — if `verb` — every character outside nested braces is a
verbatim character.  `okText false 0` = balanced text, `okText true 0` = pre- or post-text. -/
def okText (verb : Bool) : Nat → Str → Bool
  | d, [] => d = 0
  | d, c :: r =>
    if c = '{' then okText verb (d + 1) r
    else if c = '}' then d ≠ 0 && okText verb (d - 1) r
    else (!verb || d ≠ 0 || isVerbChar c) && okText verb d r

def Slot.letter : Slot → Char
  | .first => 'f' | .von => 'v' | .last => 'l' | .jr => 'j'

def Letters.text (l : Letters) : Str := if l.full then [l.slot.letter, l.slot.letter] else [l.slot.letter]

def Part.wf (p : Part) : Bool :=
  okText true 0 p.pre && okText true 0 p.post &&
  (match p.sep with | some s => okText false 0 s | none => p.post.head? ≠ some '{') &&
  (p.letters.isSome || (p.sep.isNone && p.post = []))

def Piece.wf : Piece → Bool
  | .ch c => c ≠ '{' && c ≠ '}'
  | .part p => p.wf

def Part.render (p : Part) : Str :=
  ['{'] ++ p.pre ++ (match p.letters with | some l => l.text | none => []) ++
    (match p.sep with | some s => ['{'] ++ s ++ ['}'] | none => []) ++ p.post ++ ['}']

def render : List Piece → Str
  | [] => []
  | .ch c :: r => c :: render r
  | .part p :: r => p.render ++ render r

/-! ### the formatting rule -/

/-- the tokens of the name part a letter refers to (`f` = first and middle names) -/
def tokens (p : Person) : Slot → List Str
  | .first => p.first ++ p.middle
  | .von => p.prelast
  | .last => p.last
  | .jr => p.lineage

/-- a special character: the inner text `\…` of a brace-level-1 group (more than the lone backslash) -/
def isSpecialTok (t : Tok) : Bool := t.1.head? = some '\\' && t.1 ≠ ['\\']
/-- a letter token -/
def isLetterTok (t : Tok) : Bool := t.1 ≠ [] && t.1.all isAlphaN

/-- first letter or special character (written back with its braces) of a text; empty if
there is none; `none` beyond BibTeX's nesting limit. -/
def firstLetter (s : Str) : Option Str :=
  (scan s).map fun toks =>
    match toks.find? fun t => isSpecialTok t || isLetterTok t with
    | some t => if isSpecialTok t then ['{'] ++ t.1 ++ ['}'] else t.1
    | none => []

/-- abbreviation of a token: the first letter or special character of each hyphen-separated
piece (pieces without one are skipped), joined by `.-` or by the explicit separator. -/
def abbreviate (sep : Option Str) (tok : Str) : Option Str :=
  ((splitTex .hyphen tok).mapM firstLetter).map fun ls =>
    joinWith (match sep with | some s => s | none => ['.', '-']) (ls.filter (· ≠ []))

/-- the initial of a brace-free piece of a token: its first letter (`str.isalpha`), as a text;
empty if the piece has no letter.  (Property-level reading of `firstLetter` on plain text, used
by `C11_hyphen_abbreviation`.) -/
def initial (piece : Str) : Str :=
  match piece.find? isAlphaN with
  | some c => [c]
  | none => []

/-- `t₀ ++ sepAt i ++ t₁ ++ sepAt (i+1) ++ t₂ …` -/
def interleave (sepAt : Nat → Str) : Nat → List Str → Str
  | _, [] => []
  | _, [t] => t
  | i, t :: u :: r => t ++ sepAt i ++ interleave sepAt (i + 1) (u :: r)

/-- the default separator after token `i` of `n`: a tie before the last token and after a
short first token, otherwise a space. -/
def defaultSep (n : Nat) (firstShort : Bool) (tie space : Str) (i : Nat) : Str :=
  if i + 2 = n then tie
  else if i = 0 ∧ firstShort then tie
  else space

/-- default joining.  With at most two tokens the length of the first one plays no role. -/
def joinDefault (toks : List Str) (tie space : Str) : Option Str :=
  match toks with
  | [] => some []
  | t0 :: _ =>
    if toks.length ≤ 2 then some (interleave (defaultSep toks.length false tie space) 0 toks)
    else (bibtexLen t0).map fun n => interleave (defaultSep toks.length (n < 3) tie space) 0 toks

/-- number of trailing `~` of a text -/
def trailingTies (s : Str) : Nat := (s.reverse.takeWhile (· = '~')).length

/-- append the post-text to what has been built so far; its trailing ties are a directive:
one `~` = discretionary tie (a tie if the text so far is shorter than three, else a blank),
two or more = always a tie. -/
def withPost (front post : Str) : Option Str :=
  let k := trailingTies post
  let out := front ++ post.take (post.length - k)
  if k = 0 then some out
  else if k = 1 then (bibtexLen out).map fun n => out ++ (if n < 3 then ['~'] else [' '])
  else some (out ++ ['~'])

/-- the tokens of a name part as they are shown: in full (`ff`), or each one abbreviated (`f`) -/
def shownTokens (full : Bool) (sep : Option Str) (toks : List Str) : Option (List Str) :=
  if full then some toks else toks.mapM (abbreviate sep)

/-- the shown tokens joined: plainly by the explicit separator, or by the default rule with
`~` / blank (in full) resp. `.~` / `. ` (abbreviated) -/
def joinShown (full : Bool) (sep : Option Str) (ws : List Str) : Option Str :=
  match sep with
  | some s => some (joinWith s ws)
  | none => if full then joinDefault ws ['~'] [' '] else joinDefault ws ['.', '~'] ['.', ' ']

/-- the body of a part: what stands between its pre-text and its post-text -/
def body (l : Letters) (sep : Option Str) (toks : List Str) : Option Str :=
  (shownTokens l.full sep toks).bind (joinShown l.full sep)

/-- one `{…}` part.  `none` = BibTeX's brace-nesting limit was hit in a name token. -/
def formatPart (person : Person) (p : Part) : Option Str :=
  match p.letters with
  | none => withPost [] p.pre          -- no letters and only pre-text: it acts as post-text
  | some l =>
    let toks := tokens person l.slot
    if toks = [] then some []          -- empty name part: nothing, not even pre/post text
    else (body l p.sep toks).bind fun b => withPost (p.pre ++ b) p.post

def formatPieces (person : Person) : List Piece → Option Str
  | [] => some []
  | .ch c :: r => (formatPieces person r).map fun t => c :: t
  | .part p :: r => (formatPart person p).bind fun s => (formatPieces person r).map fun t => s ++ t

inductive Outcome where
  | malformed          -- the format string is not in the grammar
  | tooDeep            -- BibTeX's brace-nesting limit was hit (in the name or a token)
  | ok (s : Str)
deriving DecidableEq, Repr

end Pybtex.Spec.NameFormat

namespace Pybtex.Spec
open NameFormat Pybtex.NFChars

/-- `format.name$` on one name. -/
def formatName (name fmt : Str) : Outcome :=
  match parse fmt with
  | none => .malformed
  | some pieces =>
    match mkPerson name [] [] [] [] [] with
    | .error _ => .tooDeep
    | .ok (person, _) =>
      match formatPieces person pieces with
      | none => .tooDeep
      | some s => .ok s

/-! ### "malformed", read directly off the string (twin of `wellformed` in `harness/props/c11.py`) -/

/-- the legal brace-level-1 letter runs -/
def legalLetters (run : Str) : Bool :=
  [['f'], ['f', 'f'], ['l'], ['l', 'l'], ['v'], ['v', 'v'], ['j'], ['j', 'j']].contains (lower run)

/-- `d` = brace depth, `seen` = the current part already has a letter run, `prev` = the
previous character was a brace-level-1 letter.  A letter that starts a level-1 run must
start the first run of its part, and that run must be legal; `_` may not occur at level 1;
the depth never goes negative and ends at 0. -/
def wellformedAux : Nat → Bool → Bool → Str → Bool
  | d, _, _, [] => d = 0
  | d, seen, prev, c :: r =>
    if c = '{' then wellformedAux (d + 1) (d ≠ 0 && seen) false r
    else if c = '}' then d ≠ 0 && wellformedAux (d - 1) seen false r
    else if d = 1 ∧ isFmtCh c then
      (prev || (!seen && legalLetters ((c :: r).takeWhile isFmtCh))) && wellformedAux 1 true true r
    else if d = 1 ∧ c = '_' then false
    else wellformedAux d seen false r

def wellformed (fmt : Str) : Bool := wellformedAux 0 false false fmt

end Pybtex.Spec
