/-
Reference notions for C01 (what a reader has to agree with): abstract `.bib` documents, the
database a document *denotes*, the surface renderings of a document (a `Layout` fixes every
spelling choice BibTeX treats as equivalent) and the well-formedness predicate `WF d L` under
which the reader must return exactly the denotation.

Nothing here mentions the scanner or the parser.  Shared with the model are only data types
(`Bib.Entry`, `Person`), the regenerated tables (`Gen.monthMacros`, `Gen.personRoles`, the NAME
character classes), `normalizeWs` (= `textutils.normalize_whitespace`) and the person-name
functions `splitNameList` / `mkPerson`, which are the subject of C12 / C04.
The case-insensitive macro table is the reference ordered map `OMap` of C13.
-/
import PybtexModel.Model.BibParse
import PybtexModel.Spec.OrderedMap

namespace Pybtex.BibSpec
open Pybtex.Bib

/-! ### abstract documents -/

/-- one piece of a `#`-concatenation: a literal text or a macro name -/
inductive Piece where
  | lit (s : Str)
  | macro (n : Str)
deriving DecidableEq, Repr

abbrev Value := List Piece

inductive ACmd where
  | entry (ty key : Str) (fields : List (Str × Value))
  | strdef (n : Str) (v : Value)
  | preamble (v : Value)
  | comment (txt : Str)
  | junk (txt : Str)
deriving DecidableEq, Repr

abbrev ADoc := List ACmd

/-! ### denotation -/

/-- the macro table: case-insensitive, last definition wins -/
abbrev Macros := OMap Str

/-- the twelve predefined month macros (table regenerated from `month_names`) -/
def initMacros : Macros := OMap.ofPairs Gen.monthMacros

/-- an undefined macro expands to the empty string (BibTeX; excluded by `WF`) -/
def expandPiece (m : Macros) : Piece → Str
  | .lit s => s
  | .macro n => (OMap.get m n).getD []

/-- the expanded pieces of a value, one string per piece -/
def expandPieces (m : Macros) (v : Value) : List Str := v.map (expandPiece m)

/-- expansion of macros and `#` concatenation -/
def expand (m : Macros) (v : Value) : Str := (expandPieces m v).flatten

/-- `Person(name)` for one element of a name list -/
def personOf (n : Str) : Option Person :=
  match mkPerson n [] [] [] [] [] with
  | .ok (p, _) => some p
  | .error _ => none

/-- the persons of a (normalised) `author` / `editor` value -/
def personsOf (v : Str) : List Person := (splitNameList v).filterMap personOf

/-- one field of an entry: a person field adds a role with its person list (nothing for an
empty list), any other field is stored under the name as written with the expanded,
white-space-normalised value -/
def denoteField (m : Macros) (e : Entry) (f : Str × Value) : Entry :=
  let v := normalizeWs (expand m f.2)
  if isPersonField f.1 then
    (if personsOf v = [] then e else { e with persons := e.persons ++ [(f.1, personsOf v)] })
  else { e with fields := e.fields ++ [(f.1, v)] }

def denoteEntry (m : Macros) (ty key : Str) (fields : List (Str × Value)) : Entry :=
  fields.foldl (denoteField m) { key := key, type := lower ty, origType := ty, fields := [], persons := [] }

structure Denot where
  entries : List Entry := []
  preamble : List Str := []

def stepMacros (m : Macros) : ACmd → Macros
  | .strdef n v => OMap.set m n (expand m v)
  | _ => m

/-- the first entry with a key (up to case) wins -/
def stepDenot (m : Macros) (D : Denot) : ACmd → Denot
  | .entry ty key fs =>
    if D.entries.any (fun e => keyFold e.key = keyFold key) then D
    else { D with entries := D.entries ++ [denoteEntry m ty key fs] }
  | .preamble v => { D with preamble := D.preamble ++ [normalizeWs (expand m v)] }
  | _ => D

def denoteFrom : Macros → Denot → ADoc → Denot
  | _, D, [] => D
  | m, D, c :: cs => denoteFrom (stepMacros m c) (stepDenot m D c) cs

/-- the database a document denotes -/
def denote (d : ADoc) : Denot := denoteFrom initMacros {} d

/-! ### layouts and rendering -/

/-- per-character case choice of an identifier -/
inductive CaseCh where
  | keep | up | low
deriving DecidableEq, Repr

/-- a case mask; characters beyond the mask are kept -/
abbrev CaseMask := List CaseCh

def applyCase : CaseCh → Char → Char
  | .keep, c => c
  | .up, c => upperC c
  | .low, c => lowerC c

def applyMask : Str → CaseMask → Str
  | [], _ => []
  | c :: r, [] => c :: r
  | c :: r, m :: ms => applyCase m c :: applyMask r ms

/-- how a literal piece is spelled -/
inductive Spelling where
  | braced | quoted | bare
deriving DecidableEq, Repr

/-- choices for one piece of a value: the spelling of a literal, the case mask of a macro name
and (for every piece but the first) the white space around the `#` in front of it -/
structure PieceLayout where
  spelling : Spelling := .braced
  mask : CaseMask := []
  beforeHash : Str := []
  afterHash : Str := []
deriving DecidableEq, Repr

/-- choices for one field: `ws name ws = ws value ws` -/
structure FieldLayout where
  beforeName : Str := []
  mask : CaseMask := []
  beforeEq : Str := []
  afterEq : Str := []
  pieces : List PieceLayout := []
  afterValue : Str := []
deriving DecidableEq, Repr

/-- choices for one command (fields that do not apply to the command kind are ignored) -/
structure CmdLayout where
  /-- `( … )` instead of `{ … }` -/
  paren : Bool := false
  afterAt : Str := []
  /-- case mask of the entry type or of the keyword `string` / `preamble` / `comment` -/
  mask : CaseMask := []
  beforeOpen : Str := []
  afterOpen : Str := []
  /-- after the entry key (before the first comma) -/
  afterKey : Str := []
  /-- `@string`: case mask of the macro name, white space before and after `=` -/
  nameMask : CaseMask := []
  beforeEq : Str := []
  afterEq : Str := []
  /-- `@string` / `@preamble`: the value and the white space after it -/
  pieces : List PieceLayout := []
  afterValue : Str := []
  fields : List FieldLayout := []
  /-- a comma after the last field, or after the key of a field-less entry: `@a{k,}` vs `@a{k}` -/
  trailing : Bool := false
  afterTrailing : Str := []
  afterClose : Str := []
deriving DecidableEq, Repr

/-- one `CmdLayout` per command; missing choices are the defaults -/
abbrev Layout := List CmdLayout

def opener (paren : Bool) : Char := if paren then '(' else '{'
def closer (paren : Bool) : Char := if paren then ')' else '}'

def renderPiece : Piece → PieceLayout → Str
  | .macro n, l => applyMask n l.mask
  | .lit s, l =>
    match l.spelling with
    | .braced => '{' :: s ++ ['}']
    | .quoted => '"' :: s ++ ['"']
    | .bare => s

/-- the pieces after the first: each preceded by `ws # ws` -/
def renderMore : Value → List PieceLayout → Str
  | [], _ => []
  | p :: ps, ls =>
    (ls.headD {}).beforeHash ++ '#' :: (ls.headD {}).afterHash ++ renderPiece p (ls.headD {}) ++ renderMore ps ls.tail

def renderValue : Value → List PieceLayout → Str
  | [], _ => []
  | p :: ps, ls => renderPiece p (ls.headD {}) ++ renderMore ps ls.tail

def renderField (f : Str × Value) (l : FieldLayout) : Str :=
  l.beforeName ++ applyMask f.1 l.mask ++ l.beforeEq ++ '=' :: l.afterEq ++ renderValue f.2 l.pieces ++ l.afterValue

/-- the fields of an entry, each preceded by a comma -/
def renderFields : List (Str × Value) → List FieldLayout → Str
  | [], _ => []
  | f :: fs, ls => ',' :: renderField f (ls.headD {}) ++ renderFields fs ls.tail

def kw (word : String) (m : CaseMask) : Str := applyMask word.toList m

def renderCmd : ACmd → CmdLayout → Str
  | .junk txt, _ => txt
  | .comment txt, l =>
    '@' :: l.afterAt ++ kw "comment" l.mask ++ l.beforeOpen ++ opener l.paren :: txt ++ closer l.paren :: l.afterClose
  | .preamble v, l =>
    '@' :: l.afterAt ++ kw "preamble" l.mask ++ l.beforeOpen ++ opener l.paren :: l.afterOpen ++
      renderValue v l.pieces ++ l.afterValue ++ closer l.paren :: l.afterClose
  | .strdef n v, l =>
    '@' :: l.afterAt ++ kw "string" l.mask ++ l.beforeOpen ++ opener l.paren :: l.afterOpen ++
      applyMask n l.nameMask ++ l.beforeEq ++ '=' :: l.afterEq ++
      renderValue v l.pieces ++ l.afterValue ++ closer l.paren :: l.afterClose
  | .entry ty key fs, l =>
    '@' :: l.afterAt ++ applyMask ty l.mask ++ l.beforeOpen ++ opener l.paren :: l.afterOpen ++
      key ++ l.afterKey ++ renderFields fs l.fields ++
      (if l.trailing then ',' :: l.afterTrailing else []) ++ closer l.paren :: l.afterClose

/-- the text of a document under a layout -/
def render : ADoc → Layout → Str
  | [], _ => []
  | c :: cs, ls => renderCmd c (ls.headD {}) ++ render cs ls.tail

/-- the document with entry types and field names spelled as the layout writes them (the only
identifiers the database stores) -/
def writtenFields : List (Str × Value) → List FieldLayout → List (Str × Value)
  | [], _ => []
  | f :: fs, ls => (applyMask f.1 (ls.headD {}).mask, f.2) :: writtenFields fs ls.tail

def writtenCmd : ACmd → CmdLayout → ACmd
  | .entry ty key fs, l => .entry (applyMask ty l.mask) key (writtenFields fs l.fields)
  | c, _ => c

def written : ADoc → Layout → ADoc
  | [], _ => []
  | c :: cs, ls => writtenCmd c (ls.headD {}) :: written cs ls.tail

/-- no case mask on entry types and field names (the layout writes them as the document has them) -/
def plainFieldIds : List (Str × Value) → List FieldLayout → Bool
  | [], _ => true
  | _ :: fs, ls => (ls.headD {}).mask = [] && plainFieldIds fs ls.tail

def plainIds : ADoc → Layout → Bool
  | [], _ => true
  | .entry _ _ fs :: cs, ls => (ls.headD {}).mask = [] && plainFieldIds fs (ls.headD {}).fields && plainIds cs ls.tail
  | _ :: cs, ls => plainIds cs ls.tail

/-- an entry with the case of the identifiers the reader stores as written (original type, field
names, role names) forgotten; key, lower-cased type, values, persons and all orders are kept -/
def ciEntry (e : Entry) : Entry :=
  { e with origType := lower e.origType,
           fields := e.fields.map fun f => (lower f.1, f.2),
           persons := e.persons.map fun r => (lower r.1, r.2) }

/-- the document without its junk and `@comment` commands -/
def stripJunk : ADoc → ADoc
  | [] => []
  | .junk _ :: cs => stripJunk cs
  | .comment _ :: cs => stripJunk cs
  | c :: cs => c :: stripJunk cs

/-- the entries of a document in order, each with the macro table in force where it stands:
(table, type, key, fields) -/
def entriesWith : Macros → ADoc → List (Macros × Str × Str × List (Str × Value))
  | _, [] => []
  | m, .entry ty key fs :: cs => (m, ty, key, fs) :: entriesWith m cs
  | m, c :: cs => entriesWith (stepMacros m c) cs

/-- the database entry of one entry command in closed form: key, type as written and lower-cased,
the non-person fields in source order under their names as written with expanded and normalised
values, and one role (name as written) per person field with a non-empty person list -/
def entryOf (x : Macros × Str × Str × List (Str × Value)) : Entry :=
  { key := x.2.2.1, type := lower x.2.1, origType := x.2.1,
    fields := (x.2.2.2.filter fun f => !isPersonField f.1).map fun f => (f.1, normalizeWs (expand x.1 f.2)),
    persons := (x.2.2.2.filter fun f => isPersonField f.1 && personsOf (normalizeWs (expand x.1 f.2)) ≠ []).map
      fun f => (f.1, personsOf (normalizeWs (expand x.1 f.2))) }

/-! ### well-formedness -/

/-- white space: only the 29 code points (blank, TAB, LF, VT, FF, CR, …; CRLF is CR LF) -/
def wsOk (w : Str) : Bool := w.all isWs

/-- the NAME pattern `[start][name char]*` of the regenerated tables -/
def isName : Str → Bool
  | [] => false
  | c :: r => isNameStart c && r.all isNameChar

/-- Brace scan of a literal from depth `d`: `some d'` = final depth; `none` when a closing brace
has no partner, the nesting exceeds 100, or (quoted spelling) a `"` occurs at depth 0. -/
def litScan (quoted : Bool) : Nat → Str → Option Nat
  | d, [] => some d
  | d, c :: r =>
    if c = '{' then (if d + 1 > 100 then none else litScan quoted (d + 1) r)
    else if c = '}' then (if d = 0 then none else litScan quoted (d - 1) r)
    else if c = '"' ∧ quoted = true ∧ d = 0 then none
    else litScan quoted d r

def pieceOk (m : Macros) : Piece → PieceLayout → Bool
  | .lit s, l =>
    match l.spelling with
    | .braced => litScan false 0 s = some 0
    | .quoted => litScan true 0 s = some 0
    | .bare => s ≠ [] && s.all isDigit
  | .macro n, _ => isName n && OMap.has m n

def moreOk (m : Macros) : Value → List PieceLayout → Bool
  | [], _ => true
  | p :: ps, ls =>
    wsOk (ls.headD {}).beforeHash && wsOk (ls.headD {}).afterHash && pieceOk m p (ls.headD {}) && moreOk m ps ls.tail

/-- a value has at least one piece -/
def valueOk (m : Macros) : Value → List PieceLayout → Bool
  | [], _ => false
  | p :: ps, ls => pieceOk m p (ls.headD {}) && moreOk m ps ls.tail

/-- a person name `Person()` accepts without a report (at most two commas at brace level 0) -/
def personOk (n : Str) : Bool :=
  match mkPerson n [] [] [] [] [] with
  | .ok (_, tooMany) => !tooMany
  | .error _ => false

/-- `seen` = lower-cased names of the preceding fields of the entry -/
def fieldsOk (m : Macros) : List Str → List (Str × Value) → List FieldLayout → Bool
  | _, [], _ => true
  | seen, f :: fs, ls =>
    let l := ls.headD {}
    isName f.1 && !seen.contains (lower f.1) && valueOk m f.2 l.pieces &&
    wsOk l.beforeName && wsOk l.beforeEq && wsOk l.afterEq && wsOk l.afterValue &&
    (!isPersonField f.1 || (splitNameList (normalizeWs (expand m f.2))).all personOk) &&
    fieldsOk m (lower f.1 :: seen) fs ls.tail

/-- a key: non-empty, no white space, no comma, no `}` in a brace-delimited entry -/
def keyOk (paren : Bool) (key : Str) : Bool :=
  key ≠ [] && key.all fun c => !isWs c && c ≠ ',' && (paren || c ≠ '}')

def atFree (s : Str) : Bool := s.all (· ≠ '@')

def reserved : List Str := ["string".toList, "preamble".toList, "comment".toList]

/-- A field-less entry without the comma, `@a{k}` / `@a(k )`: in parentheses the key pattern is
`[^\s,]+`, which would take the `)` for a part of the key, so white space has to follow the key
(in braces the pattern `[^\s,}]+` stops in front of the `}`). -/
def bareKeyOk (fs : List (Str × Value)) (l : CmdLayout) : Bool :=
  !l.paren || l.trailing || !fs.isEmpty || l.afterKey ≠ []

/-- `keys` = the keys of the preceding entries, folded as the database folds them (`keyFold` =
`str.lower()`, the Unicode mapping) -/
def cmdOk (m : Macros) (keys : List Str) : ACmd → CmdLayout → Bool
  | .junk txt, _ => atFree txt
  | .comment txt, l =>
    atFree txt && wsOk l.afterAt && wsOk l.beforeOpen && wsOk l.afterClose
  | .preamble v, l =>
    valueOk m v l.pieces &&
    wsOk l.afterAt && wsOk l.beforeOpen && wsOk l.afterOpen && wsOk l.afterValue && wsOk l.afterClose
  | .strdef n v, l =>
    isName n && valueOk m v l.pieces &&
    wsOk l.afterAt && wsOk l.beforeOpen && wsOk l.afterOpen && wsOk l.beforeEq && wsOk l.afterEq &&
    wsOk l.afterValue && wsOk l.afterClose
  | .entry ty key fs, l =>
    isName ty && !reserved.contains (lower ty) && keyOk l.paren key && !keys.contains (keyFold key) &&
    fieldsOk m [] fs l.fields &&
    wsOk l.afterAt && wsOk l.beforeOpen && wsOk l.afterOpen && wsOk l.afterKey &&
    wsOk l.afterTrailing && wsOk l.afterClose && bareKeyOk fs l

def stepKeys (keys : List Str) : ACmd → List Str
  | .entry _ key _ => keyFold key :: keys
  | _ => keys

def wfFrom : Macros → List Str → ADoc → Layout → Bool
  | _, _, [], _ => true
  | m, keys, c :: cs, ls =>
    cmdOk m keys c (ls.headD {}) && wfFrom (stepMacros m c) (stepKeys keys c) cs ls.tail

/-- Well-formed document under a layout: identifiers are NAMEs (entry types not `string` /
`preamble` / `comment`), keys are scannable, literals are brace-balanced (nesting ≤ 100) and
spelled in an admissible way, values are non-empty, a macro is used only after its definition
(or is a month), person names are acceptable, no two entries have the same key and no entry has
two fields of the same name (up to case), junk and comment text are `@`-free, all white
space consists of white-space code points, and a field-less entry in parentheses without the
comma has white space behind its key (`bareKeyOk`). -/
def WF (d : ADoc) (L : Layout) : Prop := wfFrom initMacros [] d L = true

instance (d : ADoc) (L : Layout) : Decidable (WF d L) := by unfold WF; infer_instance

/-! ### documents that may repeat field names and keys

`WF` forbids two fields of one entry with the same name and two entries with the same key (up to
case).  `WFD` is `WF` without these two conditions; what such a document denotes (`denoteD`: the
first field of a name and the first entry of a key win) and what has to be reported about it
(`reports`) is defined here. -/

/-- the fields of an entry that count: a field whose name equals an earlier one of the entry up to
case is dropped (`seen` = lower-cased names of the fields so far) -/
def firstFields : List Str → List (Str × Value) → List (Str × Value)
  | _, [] => []
  | seen, f :: fs =>
    if seen.contains (lower f.1) then firstFields seen fs
    else f :: firstFields (lower f.1 :: seen) fs

/-- one `DuplicateField` report (entry key, field name as written, no line) for every dropped
field, in source order -/
def fieldReports (key : Str) : List Str → List (Str × Value) → List Err
  | _, [] => []
  | seen, f :: fs =>
    if seen.contains (lower f.1) then ⟨.duplicateField key f.1, none⟩ :: fieldReports key seen fs
    else fieldReports key (lower f.1 :: seen) fs

/-- the entry of an entry command whose fields may repeat names: only the first field of every
name (up to case) counts -/
def denoteEntryD (m : Macros) (ty key : Str) (fs : List (Str × Value)) : Entry :=
  (firstFields [] fs).foldl (denoteField m) { key := key, type := lower ty, origType := ty, fields := [], persons := [] }

/-- the first entry with a key (up to case) wins -/
def stepDenotD (m : Macros) (D : Denot) : ACmd → Denot
  | .entry ty key fs =>
    if D.entries.any (fun e => keyFold e.key = keyFold key) then D
    else { D with entries := D.entries ++ [denoteEntryD m ty key fs] }
  | .preamble v => { D with preamble := D.preamble ++ [normalizeWs (expand m v)] }
  | _ => D

def denoteFromD : Macros → Denot → ADoc → Denot
  | _, D, [] => D
  | m, D, c :: cs => denoteFromD (stepMacros m c) (stepDenotD m D c) cs

/-- the database a document denotes when field names and keys may repeat -/
def denoteD (d : ADoc) : Denot := denoteFromD initMacros {} d

/-- the reports of one command (`keys` = folded keys, `keyFold`, of the preceding entry commands): an entry
yields its duplicate-field reports and then, if its key repeats an earlier one up to case, one
`repeated bibliography entry` report (the entry is dropped after its fields were processed).
An earlier entry that was itself dropped repeats a still earlier key, so "an earlier entry
command has this key" and "an entry of the database so far has this key" (the test of
`stepDenotD`) are the same condition. -/
def cmdReports (keys : List Str) : ACmd → List Err
  | .entry _ key fs =>
    fieldReports key [] fs ++ (if keys.contains (keyFold key) then [⟨.repeatedEntry key, none⟩] else [])
  | _ => []

def reportsFrom : List Str → ADoc → List Err
  | _, [] => []
  | keys, c :: cs => cmdReports keys c ++ reportsFrom (stepKeys keys c) cs

/-- what has to be reported about a document, in document order -/
def reports (d : ADoc) : List Err := reportsFrom [] d

/-- `fieldsOk` without the condition that the name is new -/
def fieldsOkD (m : Macros) : List (Str × Value) → List FieldLayout → Bool
  | [], _ => true
  | f :: fs, ls =>
    let l := ls.headD {}
    isName f.1 && valueOk m f.2 l.pieces &&
    wsOk l.beforeName && wsOk l.beforeEq && wsOk l.afterEq && wsOk l.afterValue &&
    (!isPersonField f.1 || (splitNameList (normalizeWs (expand m f.2))).all personOk) &&
    fieldsOkD m fs ls.tail

/-- `cmdOk` without the condition that the key is new (and with `fieldsOkD`) -/
def cmdOkD (m : Macros) : ACmd → CmdLayout → Bool
  | .junk txt, _ => atFree txt
  | .comment txt, l =>
    atFree txt && wsOk l.afterAt && wsOk l.beforeOpen && wsOk l.afterClose
  | .preamble v, l =>
    valueOk m v l.pieces &&
    wsOk l.afterAt && wsOk l.beforeOpen && wsOk l.afterOpen && wsOk l.afterValue && wsOk l.afterClose
  | .strdef n v, l =>
    isName n && valueOk m v l.pieces &&
    wsOk l.afterAt && wsOk l.beforeOpen && wsOk l.afterOpen && wsOk l.beforeEq && wsOk l.afterEq &&
    wsOk l.afterValue && wsOk l.afterClose
  | .entry ty key fs, l =>
    isName ty && !reserved.contains (lower ty) && keyOk l.paren key &&
    fieldsOkD m fs l.fields &&
    wsOk l.afterAt && wsOk l.beforeOpen && wsOk l.afterOpen && wsOk l.afterKey &&
    wsOk l.afterTrailing && wsOk l.afterClose && bareKeyOk fs l

def wfFromD : Macros → ADoc → Layout → Bool
  | _, [], _ => true
  | m, c :: cs, ls => cmdOkD m c (ls.headD {}) && wfFromD (stepMacros m c) cs ls.tail

/-- `WF` without "no two entries have the same key and no entry has two fields of the same name":
everything the scanner and the name parser need, nothing about repetitions.  (A dropped field
still has to hold acceptable person names if it is a person field: simpler, and harmless.) -/
def WFD (d : ADoc) (L : Layout) : Prop := wfFromD initMacros d L = true

instance (d : ADoc) (L : Layout) : Decidable (WFD d L) := by unfold WFD; infer_instance

/-- no field name repeats one of `seen` or an earlier one (up to case) -/
def freshNames : List Str → List (Str × Value) → Bool
  | _, [] => true
  | seen, f :: fs => !seen.contains (lower f.1) && freshNames (lower f.1 :: seen) fs

/-- no entry repeats a field name, no key repeats one of `keys` or an earlier one (up to case):
exactly what `WF` asks on top of `WFD` -/
def noDups : List Str → ADoc → Bool
  | _, [] => true
  | keys, .entry ty key fs :: cs =>
    !keys.contains (keyFold key) && freshNames [] fs && noDups (stepKeys keys (.entry ty key fs)) cs
  | keys, _ :: cs => noDups keys cs

/-- the entry commands that count: the first of every key (`seen` = folded keys so far) -/
def firstEntries : List Str → List (Macros × Str × Str × List (Str × Value)) →
    List (Macros × Str × Str × List (Str × Value))
  | _, [] => []
  | seen, x :: xs =>
    if seen.contains (keyFold x.2.2.1) then firstEntries seen xs
    else x :: firstEntries (keyFold x.2.2.1 :: seen) xs

/-- `entryOf` on the fields that count -/
def entryOfD (x : Macros × Str × Str × List (Str × Value)) : Entry :=
  entryOf (x.1, x.2.1, x.2.2.1, firstFields [] x.2.2.2)

end Pybtex.BibSpec
