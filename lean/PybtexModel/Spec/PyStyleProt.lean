/-
C07 — spec notions for the whole-entry "brace-protected text keeps its case" statement
(`C07_protected_case_pipeline`).  Core Lean only; independent of the evaluator.
-/
import PybtexModel.Spec.PyStyle

namespace Pybtex.Tmpl.Spec
open Pybtex Pybtex.RT

/-- the characters (and symbols) of `s` that stand under a `Protected`, in order, each exactly as it
is (a character keeps its case), WITHOUT the markup stack: between a field value and the formatted
entry further markup (a tag, a link) may be put around a protected character, which changes its
stack but not the character and not the fact that it is protected -/
def protChars (s : Flat) : List Atom := (protAtoms s).map (·.1)

/-- the protected characters of `value` occur among the protected characters of `out` as one
contiguous run, in order, character for character (same case) -/
def ProtCovers (value out : Flat) : Prop := protChars value <:+: protChars out

end Pybtex.Tmpl.Spec
