/-
Reference side of C15: what a `.bst` program *is* (abstract syntax) and every way of writing it
down (`print`), independent of how pybtex scans text.

A program is a list of commands; a command is its name *as written* plus its argument groups;
a group is a list of tokens; a token is an integer, a string, a quoted name (`'name`), a plain
name, or a nested function literal (`{ ... }`).  This is exactly the structure of the Python
value `list(bst.parse_string(src))`:
`[[name, [tok, ...], ...], ...]` with `Integer(v)`, `String(s)`, `QuotedVar(n)`,
`Identifier(n)`, `FunctionLiteral([tok, ...])` compared structurally.

`print p L` writes `p` with the lay-out `L`: between any two lexemes (and before the first and
after the last) `L` chooses a *gap* — any sequence of white-space characters (any of Python's
29, including every line-break character) and `%`-comments (any text, ended by any line-break
character) — possibly empty, so braces may or may not be surrounded by space; the only place
where the printer overrides the lay-out is between two lexemes that would otherwise fuse
(name or integer directly followed by a name), where an empty gap is printed as one blank.
A final unterminated comment may follow.  Command names are printed as the program spells them
(any letter case; `WFProg` accepts every spelling whose upper-casing is a command of `commandTable`).
-/
import PybtexModel.Model.Lines

namespace Pybtex.Bst

/-! ### Abstract syntax -/

inductive Tok where
  | int (v : Int)
  | str (s : Str)
  | quoted (n : Str)
  | name (n : Str)
  | fn (body : List Tok)
  deriving Repr

structure Command where
  name : Str
  groups : List (List Tok)
  deriving Repr

abbrev Program := List Command

/-! ### Lexemes -/

inductive Lex where
  | word (s : Str)     -- a name, a quoted name with its `'`, or a command name
  | int (v : Int)
  | str (s : Str)
  | lb
  | rb
  deriving Repr, DecidableEq

/-- `#` sign decimal-digits -/
def intText (v : Int) : Str :=
  '#' :: (if v < 0 then '-' :: Nat.toDigits 10 v.natAbs else Nat.toDigits 10 v.natAbs)

def Lex.text : Lex → Str
  | .word s => s
  | .int v => intText v
  | .str s => '"' :: (s ++ ['"'])
  | .lb => ['{']
  | .rb => ['}']

mutual
  def Tok.lexemes : Tok → List Lex
    | .int v => [.int v]
    | .str s => [.str s]
    | .quoted n => [.word ('\'' :: n)]
    | .name n => [.word n]
    | .fn body => .lb :: (lexemesList body ++ [.rb])
  def lexemesList : List Tok → List Lex
    | [] => []
    | t :: ts => t.lexemes ++ lexemesList ts
end

def groupLexemes (g : List Tok) : List Lex := .lb :: (lexemesList g ++ [.rb])

def groupsLexemes : List (List Tok) → List Lex
  | [] => []
  | g :: gs => groupLexemes g ++ groupsLexemes gs

def Command.lexemes (c : Command) : List Lex := .word c.name :: groupsLexemes c.groups

def Program.lexemes : Program → List Lex
  | [] => []
  | c :: p => c.lexemes ++ Program.lexemes p

/-! ### Lay-outs -/

/-- a white-space character (one of the 29) -/
structure WsChar where
  c : Char
  ws : isWs c = true

/-- a line-break character (one of the 10 of `str.splitlines`) -/
structure SepChar where
  c : Char
  sep : isLineSep c = true

/-- the text of a comment: anything without a line break -/
structure CommentText where
  s : Str
  ok : s.all (fun c => !isLineSep c) = true

inductive GapItem where
  | ws (c : WsChar)
  /-- `%text` up to and including the line break `term` (`\r\n` is `term = \r` followed by a
  white-space item `\n`) -/
  | comment (text : CommentText) (term : SepChar)

abbrev Gap := List GapItem

structure Layout where
  /-- the gap before the first lexeme, then the gap after each lexeme in turn; gaps beyond the
  end of the list are empty -/
  gaps : List Gap
  /-- an unterminated comment at the very end of the text -/
  trailer : Option CommentText

def GapItem.text : GapItem → Str
  | .ws c => [c.c]
  | .comment t s => '%' :: (t.s ++ [s.c])

def gapText : Gap → Str
  | [] => []
  | i :: g => i.text ++ gapText g

/-- lexemes that fuse when written without separation -/
def needsGap : Option Lex → Lex → Bool
  | some (.word _), .word _ => true
  | some (.int _), .word _ => true
  | _, _ => false

def sepText (prev : Option Lex) (next : Lex) (g : Gap) : Str :=
  if needsGap prev next && g.isEmpty then [' '] else gapText g

def render : Option Lex → List Lex → List Gap → Str
  | _, [], gs => gapText (gs.headD [])
  | prev, l :: ls, gs => sepText prev l (gs.headD []) ++ (l.text ++ render (some l) ls gs.tail)

def trailerText : Option CommentText → Str
  | none => []
  | some t => '%' :: t.s

def print (p : Program) (L : Layout) : Str :=
  render none p.lexemes L.gaps ++ trailerText L.trailer

/-! ### Well-formed programs -/

/-- characters a name may consist of: anything but `# " { } %` and white space -/
def nameChar (c : Char) : Bool :=
  !(c = '#' || c = '"' || c = '{' || c = '}' || c = '%' || isWs c)

/-- plain name: non-empty, name characters only, not starting with `'` -/
def wfName (n : Str) : Bool :=
  match n with
  | [] => false
  | c :: r => c != '\'' && nameChar c && r.all nameChar

/-- quoted name (the part after `'`): name characters only -/
def wfQuoted (n : Str) : Bool := n.all nameChar

/-- string literal: no `"` and no line break -/
def wfStr (s : Str) : Bool := s.all fun c => c != '"' && !isLineSep c

/-- The largest number of decimal digits an integer literal may have: CPython's default limit on
`str` → `int` conversion (`sys.int_info.default_max_str_digits`; `int()` raises `ValueError`
beyond it and the parser reports a syntax error, see `proposed_fixes/C15-3`).  That the running
interpreter's limit (`Gen.intMaxStrDigits`, regenerated on every run) is this number is a proof
obligation (`Lemmas/BstFuel.lean: int_limit`). -/
def intDigitLimit : Nat := 4300

/-- integer literal: at most `intDigitLimit` digits -/
def wfInt (v : Int) : Bool := decide ((Nat.toDigits 10 v.natAbs).length ≤ intDigitLimit)

mutual
  def wfTok : Tok → Bool
    | .int v => wfInt v
    | .str s => wfStr s
    | .quoted n => wfQuoted n
    | .name n => wfName n
    | .fn body => wfToks body
  def wfToks : List Tok → Bool
    | [] => true
    | t :: ts => wfTok t && wfToks ts
end

/-- The ten `.bst` commands and the number of argument groups each takes (BibTeX, "Designing
BibTeX styles", section 5.2).  This is the reference; that pybtex's own table
(`BstParser.COMMANDS`, regenerated into `Gen/BstCommands.lean` on every run) says the same is a
proof obligation (`Lemmas/BstFuel.lean: commands_table`). -/
def commandTable : List (Str × Nat) :=
  [("ENTRY".toList, 3), ("EXECUTE".toList, 1), ("FUNCTION".toList, 2), ("INTEGERS".toList, 1),
   ("ITERATE".toList, 1), ("MACRO".toList, 2), ("READ".toList, 0), ("REVERSE".toList, 1),
   ("SORT".toList, 0), ("STRINGS".toList, 1)]

/-- number of argument groups of a command name, looked up case-insensitively (ASCII) -/
def cmdArity (name : Str) : Option Nat := commandTable.lookup (upper name)

def wfCommand (c : Command) : Bool :=
  wfName c.name && cmdArity c.name == some c.groups.length && c.groups.all wfToks

def WFProg (p : Program) : Prop := p.all wfCommand = true

instance (p : Program) : Decidable (WFProg p) := by unfold WFProg; infer_instance

/-! ### Reference reading of an arbitrary lexeme sequence

What a sequence of lexemes means, well-formed or not, told as a left-to-right pass with an
explicit stack of open groups (no recursive descent, no text).  Used as the reference for the
"malformed source is rejected, and the error names the line" clause: the offending lexeme is
identified by its index, its line is a matter of the lay-out (`lexLine`). -/

inductive Reading where
  | prog (p : Program)
  /-- lexeme `i` stands where a command name is expected and is not one -/
  | badCommand (i : Nat)
  /-- lexeme `i` stands where the `{` of an argument group is expected -/
  | braceExpected (i : Nat)
  /-- the text ends inside a command (missing group or unclosed `{`) -/
  | prematureEnd
  /-- inside a group, behind lexeme `i - 1`, stands text that cannot begin any token
  (only produced by `readBad`) -/
  | lexicalError (i : Nat)
  deriving Repr

structure RState where
  /-- completed commands, last first -/
  done : List Command := []
  /-- command being read: name, number of groups still to come (≥ 1), groups read (last first) -/
  cur : Option (Str × Nat × List (List Tok)) := none
  /-- open groups, innermost first, each with its tokens last first -/
  stack : List (List Tok) := []

def wordTok : Str → Tok
  | '\'' :: n => .quoted n
  | n => .name n

/-- a group of the current command is complete -/
def RState.closeGroup (s : RState) (g : List Tok) : RState :=
  match s.cur with
  | some (n, k + 2, gs) => { s with cur := some (n, k + 1, g :: gs), stack := [] }
  | some (n, _, gs) => { done := ⟨n, (g :: gs).reverse⟩ :: s.done, cur := none, stack := [] }
  | none => { s with stack := [] }

def RState.push (s : RState) (t : Tok) : RState :=
  match s.stack with
  | g :: st => { s with stack := (t :: g) :: st }
  | [] => s

def RState.step (s : RState) (i : Nat) (l : Lex) : Except Reading RState :=
  match s.stack with
  | g :: st =>
    match l with
    | .lb => .ok { s with stack := [] :: g :: st }
    | .rb =>
      match st with
      | [] => .ok (s.closeGroup g.reverse)
      | g' :: st' => .ok { s with stack := (.fn g.reverse :: g') :: st' }
    | .word w => .ok (s.push (wordTok w))
    | .int v => .ok (s.push (.int v))
    | .str x => .ok (s.push (.str x))
  | [] =>
    match s.cur with
    | some _ => if l = .lb then .ok { s with stack := [[]] } else .error (.braceExpected i)
    | none =>
      match l with
      | .word w =>
        match cmdArity w with
        | some 0 => .ok { s with done := ⟨w, []⟩ :: s.done }
        | some k => .ok { s with cur := some (w, k, []) }
        | none => .error (.badCommand i)
      | _ => .error (.badCommand i)

def readFrom (s : RState) (i : Nat) : List Lex → Reading
  | [] => if s.cur.isNone && s.stack.isEmpty then .prog s.done.reverse else .prematureEnd
  | l :: ls =>
    match s.step i l with
    | .error r => r
    | .ok s' => readFrom s' (i + 1) ls

def read (ls : List Lex) : Reading := readFrom {} 0 ls

/-- number of line breaks in a text (`\r\n` is one) -/
def breaks : Str → Nat
  | [] => 0
  | '\r' :: '\n' :: r => breaks r + 1
  | c :: r => if isLineSep c then breaks r + 1 else breaks r

/-- the text `render` puts in front of lexeme number `i` (white space and comments included) -/
def textBefore : Option Lex → List Lex → List Gap → Nat → Str
  | _, [], _, _ => []
  | prev, l :: _, gs, 0 => sepText prev l (gs.headD [])
  | prev, l :: ls, gs, i + 1 =>
    sepText prev l (gs.headD []) ++ (l.text ++ textBefore (some l) ls gs.tail i)

/-- 1-based line on which lexeme `i` of `render none ls gaps` starts -/
def lexLine (ls : List Lex) (gaps : List Gap) (i : Nat) : Nat := 1 + breaks (textBefore none ls gaps i)

/-- the line a "premature end" is reported on: the last line of the text -/
def eofLine (text : Str) : Nat := max 1 (splitLines text).length

/-- a lexeme that is what it claims to be when written down -/
def wfLex : Lex → Bool
  | .word w => (match w with | [] => false | _ :: _ => w.all nameChar)
  | .str s => wfStr s
  | .int v => wfInt v
  | _ => true

/-! ### Lexically broken text

Text that is no lexeme at all.  A `#` begins an integer only when a decimal digit, or `-` and a
decimal digit, follows (ASCII digits: `٣` and `²` are none); a `"` begins a string only when
another `"` follows somewhere in the rest of the source.  Anything else starting with `#` or `"`
cannot begin a token, whatever comes after it. -/

/-- the text continues an integer after its `#`: a digit, or `-` and a digit -/
def intStart : Str → Bool
  | c :: r => isDigit c || (c == '-' && (match r with | d :: _ => isDigit d | [] => false))
  | [] => false

/-- `t` (the whole rest of the source) cannot begin a token: `#` without an integer behind it, or
a `"` that is never closed -/
def lexBad : Str → Bool
  | '#' :: r => !intStart r
  | '"' :: r => !r.contains '"'
  | _ => false

/-- Reference reading of a lexeme sequence that is followed by text that cannot begin a token:
the lexemes are read as by `readFrom`; where they end, the offending text stands where a command
name, the `{` of an argument group, or a token of an open group is expected. -/
def readBadFrom (s : RState) (i : Nat) : List Lex → Reading
  | [] =>
    match s.stack with
    | _ :: _ => .lexicalError i
    | [] => if s.cur.isSome then .braceExpected i else .badCommand i
  | l :: ls =>
    match s.step i l with
    | .error r => r
    | .ok s' => readBadFrom s' (i + 1) ls

def readBad (ls : List Lex) : Reading := readBadFrom {} 0 ls

/-- 1-based line on which text appended to `render none ls gaps` starts -/
def tailLine (ls : List Lex) (gaps : List Gap) : Nat := 1 + breaks (render none ls gaps)

/-- the lexemes of groups that are still open, outermost first: each `{` with the complete tokens
read in it so far -/
def openLexemes : List (List Tok) → List Lex
  | [] => []
  | ts :: rest => .lb :: (lexemesList ts ++ openLexemes rest)

/-! ### Nesting depth -/

mutual
  /-- nesting depth of function literals: `0` for a literal token, `1 +` the depth of the body -/
  def Tok.depth : Tok → Nat
    | .fn body => depthList body + 1
    | _ => 0
  def depthList : List Tok → Nat
    | [] => 0
    | t :: ts => max t.depth (depthList ts)
end

/-- deepest nesting of function literals in a program (an argument group itself counts as 0) -/
def Program.depth (p : Program) : Nat :=
  p.foldl (fun m c => c.groups.foldl (fun m g => max m (depthList g)) m) 0

/-! ### Comments -/

/-- Position of the `%` that starts the comment of a line: the first `%` with an even number of
`"` in front of it (i.e. outside a string literal). -/
def commentStart (line : Str) : Option Nat :=
  (List.range line.length).find? fun k => line[k]? == some '%' && (line.take k).count '"' % 2 == 0

/-- position `k` of the line holds a `%` that is outside every string literal -/
def CommentAt (l : Str) (k : Nat) : Prop := l[k]? = some '%' ∧ (l.take k).count '"' % 2 = 0

instance (l : Str) (k : Nat) : Decidable (CommentAt l k) := by unfold CommentAt; infer_instance

/-- the line without its comment -/
def uncommented (line : Str) : Str :=
  match commentStart line with
  | some k => line.take k
  | none => line

end Pybtex.Bst
