/-
Reference semantics of error reporting (property C16), independent of how `pybtex/errors.py`
keeps its state: what each `report_error` of a history does is a function of the NESTING DEPTH
of capture contexts and of the strict flag alone, and a context yields the reports made directly
in its body.  Short on purpose: this is what a reader has to agree with.

(The operation and observation types are shared with the model; nothing of its state is used.)
-/
import PybtexModel.Model.Errors

namespace Pybtex.Errors.Spec
open Pybtex.Errors
variable {E : Type}

/-- One report: inside any open capture context it is collected; outside, strict mode raises it,
non-strict mode prints it as a warning. -/
def reportSpec (depth : Nat) (strict : Bool) (e : E) : Obs E :=
  if depth > 0 then .collected else if strict then .raised e else .printed e

/-- What the reports of a history do, in order. -/
def reportObs : Nat → Bool → List (Op E) → List (Obs E)
  | _, _, [] => []
  | d, b, op :: ops =>
    match op with
    | .enter => reportObs (d + 1) b ops
    | .exit | .abort => reportObs (d - 1) b ops
    | .setStrict x => reportObs d x ops
    | .report e => reportSpec d b e :: reportObs d b ops

/-- The reports made directly in the body of a context (`ops` starts just after its `enter`):
those at relative depth 0 up to the matching exit. -/
def directBody (ops : List (Op E)) : List E := baseReports 0 ops

/-- The list each context yields, one per context in the order the contexts are entered. -/
def contextLists : List (Op E) → List (List E)
  | [] => []
  | op :: ops =>
    match op with
    | .enter => directBody ops :: contextLists ops
    | _ => contextLists ops

/-- `error_code` at the end: 2 as soon as one warning was printed, otherwise unchanged. -/
def finalCode (code : Nat) (reports : List (Obs E)) : Nat :=
  if (printedOf reports).isEmpty then code else 2

/-- Well-bracketed histories as a grammar: reports and `set_strict_mode` calls, contexts around
well-bracketed bodies left normally or by an exception, and concatenations. -/
inductive WellBracketed : List (Op E) → Prop where
  | nil : WellBracketed []
  | report (e : E) : WellBracketed [.report e]
  | setStrict (b : Bool) : WellBracketed [.setStrict b]
  | context (body : List (Op E)) : WellBracketed body → WellBracketed (.enter :: body ++ [.exit])
  | aborted (body : List (Op E)) : WellBracketed body → WellBracketed (.enter :: body ++ [.abort])
  | append (a b : List (Op E)) : WellBracketed a → WellBracketed b → WellBracketed (a ++ b)

/-- Reporting modes of a whole computation `e₁ … eₙ` (+ optional fatal error). -/
structure ModeResult (E : Type) where
  collected : List E      -- capture mode: the list
  printed : List E        -- non-strict mode: the warnings, in order
  errorCode : Nat         -- non-strict mode, starting from 0
  strictRaises : Option E -- strict mode: the exception that ends the computation
  status : Nat            -- exit status of the command line (non-strict)

def modes (c : Comp E) : ModeResult E :=
  { collected := c.reports
    printed := c.reports
    errorCode := if c.reports.isEmpty then 0 else 2
    strictRaises := match c.reports with
      | e :: _ => some e
      | [] => c.fatal
    status := match c.fatal with
      | some _ => 1
      | none => if c.reports.isEmpty then 0 else 2 }

end Pybtex.Errors.Spec
