/-
Reference semantics for the API surface modelled in `Model/RichTextApi.lean` (property C08):

* what a constructor EXPRESSION with arbitrary arguments denotes (`Arg.sem`: the string of pairs; a tag
  name / URL given as a rich text counts as its characters, the deprecated name `emph` as `em`) and when it
  is well typed (`Arg.wellTyped`: a purely syntactic test) – nothing here knows about parts or merging;
* `text[key]` for any key on the abstract value (`Abs.getItemKey`): the Python extended slice
  `s[i:j:k]` of the string of pairs, specified through `everyNth` of the step-1 slice (of the reversed
  string with mirrored bounds when the step is negative).
-/
import PybtexModel.Spec.RichText
import PybtexModel.Model.RichTextApi

namespace Pybtex

/-- every `k`-th element, starting with the first (`s[::k]` for `k ≥ 1`) -/
def everyNth {α : Type} (k : Nat) : List α → List α
  | [] => []
  | x :: r => x :: everyNth k (r.drop (k - 1))
termination_by l => l.length
decreasing_by simp only [List.length_drop, List.length_cons]; omega

/-- position of the bound `x` of a negative-step slice in the reversed string (`n` = length) -/
def revBound (n : Nat) (x : Int) : Int := if x < 0 then -x - 1 else max ((n : Int) - 1 - x) 0

/-- Python `s[i:j:k]` for `k ≠ 0` -/
def pyExtSlice {α : Type} (s : List α) (i j : Option Int) (k : Int) : List α :=
  if k > 0 then everyNth k.toNat (RT.strSlice s i j)
  else everyNth (-k).toNat (RT.strSlice s.reverse (i.map (revBound s.length)) (j.map (revBound s.length)))

namespace RT

def Arg.isPart : Arg → Bool
  | .other _ => false
  | _ => true

def Arg.isPyStr : Arg → Bool
  | .str _ => true
  | _ => false

/-- `isinstance(name, (str, Text))` read off the expression -/
def Arg.nameOk : Arg → Bool
  | .str _ => true
  | .text _ => true
  | _ => false

mutual
/-- the expression evaluates without an exception: parts are strings or rich texts, tag names are `str` or `Text(…)`,
URLs are `str` or rich texts, the arguments of `String(…)` are `str` -/
def Arg.wellTyped : Arg → Bool
  | .str _ => true
  | .other _ => true
  | .symbol _ => true
  | .string parts => Arg.wellTypedL parts && parts.all Arg.isPyStr
  | .text args => Arg.wellTypedL args && args.all Arg.isPart
  | .tag name args => Arg.wellTyped name && Arg.nameOk name && Arg.wellTypedL args && args.all Arg.isPart
  | .href url _ args => Arg.wellTyped url && Arg.isPart url && Arg.wellTypedL args && args.all Arg.isPart
  | .prot args => Arg.wellTypedL args && args.all Arg.isPart
def Arg.wellTypedL : List Arg → Bool
  | [] => true
  | a :: as => Arg.wellTyped a && Arg.wellTypedL as
end

/-- the deprecated tag name -/
def tagAlias (n : Str) : Str := if n = "emph".toList then "em".toList else n

mutual
/-- the string of pairs an expression denotes inside the markup `ctx` -/
def Arg.sem (ctx : List Markup) : Arg → Flat
  | .str s => s.map fun c => (.ch c, ctx)
  | .other _ => []
  | .symbol n => [(.sym n, ctx)]
  | .string parts => Arg.semL ctx parts
  | .text args => Arg.semL ctx args
  | .tag name args => Arg.semL (ctx ++ [.tag (tagAlias (Flat.toStr (Arg.sem [] name)))]) args
  | .href url e args => Arg.semL (ctx ++ [.href (Flat.toStr (Arg.sem [] url)) e]) args
  | .prot args => Arg.semL (ctx ++ [.prot]) args
def Arg.semL (ctx : List Markup) : List Arg → Flat
  | [] => []
  | a :: as => Arg.sem ctx a ++ Arg.semL ctx as
end

/-- the class of the object an expression denotes (`none`: not a rich text) -/
def Arg.top : Arg → Option Top
  | .str _ => none
  | .other _ => none
  | .symbol _ => some .symbol
  | .string _ => some .string
  | .text _ => some (.multi .text)
  | .tag name _ => some (.multi (.tag (tagAlias (Flat.toStr (Arg.sem [] name)))))
  | .href url e _ => some (.multi (.href (Flat.toStr (Arg.sem [] url)) e))
  | .prot _ => some (.multi .prot)

def Arg.absOf (a : Arg) : Option Abs :=
  match Arg.top a with
  | none => none
  | some t => some ⟨t, Arg.sem [] a⟩

end RT

namespace Abs
open RT

/-- `a[key]` on the abstract value -/
def getItemKey (a : Abs) : Key → Except KErr Abs
  | .int i =>
    match index a i with
    | .ok r => .ok r
    | .error _ => .error .indexError
  | .other => .error .typeError
  | .slice i j k =>
    let step : Int := match k with
      | none => 1
      | some s => s
    if step = 0 then .error .valueError
    else if step = 1 then .ok (slice a i j)
    else
      match a.top with
      | .multi _ => .error .notImplemented
      | tp => .ok ⟨bif tp == .symbol && (pyExtSlice a.atoms i j step).isEmpty then .string else tp, pyExtSlice a.atoms i j step⟩

end Abs
end Pybtex
