/-
Reference lookup for the Unicode model of the cross-reference lookup (`Model/CrossrefU.lean`):
no visited set, no loop detection — simply walk `len(db) + 1` entries along the chain of `crossref`
fields (going round a cycle if there is one) and take the value of the first entry that defines the
name as a field or as a role.  It talks about the database only through `entries[key]`
(`CIDict.getItem`, the container of C13) and about an entry only through `fields[name]` /
`persons[role]`.
-/
import PybtexModel.Model.CrossrefU

namespace Pybtex.Uni
variable (norm : Str → Str)

/-- the database entry the `crossref` field of `e` names, if both exist -/
def parentU (db : UDb) (e : UEntry) : Option UEntry :=
  (CIDict.getItem norm e.fields xrefName).bind fun x => CIDict.getItem norm db x

/-- the first `n` entries of the cross-reference chain starting at `e` -/
def walkU (db : UDb) : Nat → UEntry → List UEntry
  | 0, _ => []
  | n + 1, e => e :: (match parentU norm db e with | some p => walkU db n p | none => [])

/-- value of the first entry along the chain that defines `name` -/
def lookupU (db : UDb) (e : UEntry) (name : Str) : Option Str :=
  (walkU norm db (CIDict.len db + 1) e).findSome? (UEntry.own norm · name)

end Pybtex.Uni
