/-
C17 — reference semantics of the plug-in registry: ONE table from (group, name) to class.

It starts as the installed table.  Registering writes into it unless the key is taken and the
registration is not forced.  Looking a name up in a base group reads the key (group, name), then
the key (group ++ ".aliases", name).  Nothing else: no second table, no search order between
"run-time" and "installed".  (This is also what upstream pybtex did with pkg_resources: a run-time
plug-in was added to the entry map of the distribution.)
-/
import PybtexModel.Model.Basic

namespace Pybtex.Spec.Plugins

/-- The effective table. -/
abbrev Table := Str → Str → Option Str

/-- `register g n k force` on the one table: the new table and the answer. -/
def register (T : Table) (g n k : Str) (force : Bool) : Table × Bool :=
  if (T g n).isSome && !force then (T, false)
  else (fun g' n' => if g' = g ∧ n' = n then some k else T g' n', true)

/-- Exact lookup of one key. -/
def load (T : Table) (g n : Str) : Option Str := T g n

/-- Lookup of a name in a base group: real names first, then aliases. -/
def findName (T : Table) (g n : Str) : Option Str :=
  match T g n with
  | some k => some k
  | none => T (g ++ ".aliases".toList) n

/-- Lookup by suffix. -/
def findSuffix (T : Table) (g sfx : Str) : Option Str := T (g ++ ".suffixes".toList) sfx

end Pybtex.Spec.Plugins
