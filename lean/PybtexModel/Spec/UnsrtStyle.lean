/-
Reference notions for the extension of property C07 to the shipped styles.  A reader has to agree with:

* `endsAlways` / `endsWithEditor` / `terminatingEntry` — the entries for which the property's clause "each entry ends with
  a sentence terminator" is claimed of the shipped templates (thirteen entry types always; `book` / `inbook` when the entry
  has an editor; `incollection` / `inproceedings` never: finding C07-blank-field-in-unterminated);
* `requiredOf` — per entry type the lookups the shipped template performs outside every `optional`, i.e. the fields and
  roles whose absence is reported as `FieldIsMissing` (for `book` / `inbook` the role `editor` stands for "author or,
  failing that, editor": the template is `first_of [optional [names author], names editor]`);
* `occs` — the words of one part of a name as occurrences under a `name_part` node.
-/
import PybtexModel.Model.UnsrtStyle
import PybtexModel.Spec.PyStyle

namespace Pybtex.Tmpl.Spec
open Pybtex.RT Pybtex.Tmpl.Unsrt

def endsAlways : List String :=
  ["article", "booklet", "dataset", "manual", "mastersthesis", "misc", "online", "patent", "phdthesis", "proceedings",
   "software", "techreport", "unpublished"]

def endsWithEditor : List String := ["book", "inbook"]

def typeIn (l : List String) (type : Str) : Bool := l.any fun n => n.toList = type

/-- the entries whose shipped template is built from sentences with a final period throughout -/
def terminatingEntry (e : PEntry) : Bool :=
  typeIn endsAlways e.type || (typeIn endsWithEditor e.type && hasEditor e)

def fieldsL (l : List String) : List Lookup := l.map fun n => .field n.toList

/-- the required lookups of the shipped template of an entry type (`hasEd` = the entry has an editor) -/
def requiredOf (type : String) (hasEd : Bool) : List Lookup :=
  match type with
  | "article" => .names "author".toList :: fieldsL ["title", "journal", "year"]
  | "book" => .names "editor".toList :: fieldsL ["title", "publisher", "year"]
  | "booklet" => .names "author".toList :: fieldsL ["title", "year"]
  | "inbook" => .names "editor".toList :: fieldsL ["title", "publisher", "year"]
  | "incollection" => .names "author".toList :: fieldsL ["title", "booktitle", "year"]
  | "inproceedings" => .names "author".toList :: fieldsL ["title", "booktitle", "year"]
  | "manual" => fieldsL ["title"]
  | "mastersthesis" => .names "author".toList :: fieldsL ["title", "school", "year"]
  | "phdthesis" => .names "author".toList :: fieldsL ["title", "school", "year"]
  | "proceedings" => (if hasEd then [.names "editor".toList] else []) ++ fieldsL ["title", "year"]
  | "techreport" => .names "author".toList :: fieldsL ["title", "institution", "year"]
  | "unpublished" => .names "author".toList :: fieldsL ["title", "note"]
  | _ => []      -- dataset, misc, online, patent, software: nothing is required

/-- the words of one part of a name as occurrences under a `name_part` node (`abbr`: the node abbreviates) -/
def occs (abbr : Bool) (rs : List RT) : List NOcc := rs.map fun r => ⟨r, abbr, false⟩

/-- the name words the shipped name styles put under `name_part` nodes, in template order: `plain` = first + middle
(abbreviated on request), von, last, lineage; `lastfirst` = von, last, lineage, first + middle (abbreviated on request) -/
def nameOccs (st : NameStyle) (abbr : Bool) (fm von last jr : List RT) : List NOcc :=
  match st with
  | .plain => occs abbr fm ++ (occs false von ++ (occs false last ++ occs false jr))
  | .lastfirst => occs false von ++ (occs false last ++ (occs false jr ++ occs abbr fm))

/-- all words of a person -/
def Person.words (p : Person) : List Str := p.first ++ p.middle ++ p.prelast ++ p.last ++ p.lineage

end Pybtex.Tmpl.Spec
