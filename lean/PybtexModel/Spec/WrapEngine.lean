/-
C19, engine level — the vocabulary of `C19_engine_run` (audit-d, C19 findings 1–2).

`St.trace` of the interpreter model (`Model/Interp.lean`) is the list of the `write$` / `newline$`
calls a run executed, in order.  `traceGroups` cuts it into `newline$` groups: the pieces written
before the first `newline$`, those between the first and the second one, …; what is written after
the last `newline$` belongs to no group (Python never outputs it).
-/
import PybtexModel.Model.Interp

namespace Pybtex.Wrap
open Pybtex Pybtex.Interp

/-- the `newline$` groups of a trace of output calls; `pending` = the pieces written since the
last `newline$` -/
def traceGroups : List Str → List OutEv → List (List Str)
  | _, [] => []
  | pending, .write x :: r => traceGroups (pending ++ [x]) r
  | pending, .newline :: r => pending :: traceGroups [] r

/-- the texts of the `write$` calls of a trace, in order -/
def traceWrites : List OutEv → List Str
  | [] => []
  | .write x :: r => x :: traceWrites r
  | .newline :: r => traceWrites r

/-- the number of `newline$` calls of a trace -/
def traceNewlines : List OutEv → Nat
  | [] => 0
  | .write _ :: r => traceNewlines r
  | .newline :: r => traceNewlines r + 1

end Pybtex.Wrap
