/-
Vocabulary in which the theorems of C03 are stated: the documented semantics of the BibTeX
style language ("Designing BibTeX styles", btxhak sections 3–5: the stack machine, the ten
commands, the 37 built-in functions).  This file is what a reader has to agree with.  It shares
the data types of the interpreter model (`Val`, `Builtin`, `VarObj`, `St`, `IErr` of
`Model/Interp.lean`) and the string functions that have their own properties (C12: `substring$`,
`text.length$`, `text.prefix$`, `purify$`, `change.case$`; C11: `format.name$`; C19: `wrap`); the
big-step judgements `EvalVal` … are the model's fuelled functions with the fuel quantified away;
everything else (order, sortedness, stability, folds, output events, frames, declarations, the
table `Doc` of the stack-only built-ins) is defined here independently of the interpreter.

Conventions.  The documentation writes a stack with its top LAST ("`a b +`"); in a state `s`
the top of the stack is the HEAD of `s.stack`.  So the documented operand list
`s start len substring$` is the model stack `len :: start :: s :: rest`.

A string operand may be a missing field: `valToStr` reads `Val.missing _` as the empty string
(`MissingField` is a subclass of `str` with value `""`), and only `missing$` tells them apart.
-/
import PybtexModel.Model.Interp
import PybtexModel.Spec.TeXString

namespace Pybtex.BstSem
open Pybtex.Interp
open Pybtex.Bst (Command Program)

/-! ### operand classes -/

/-- an integer literal / the value of an integer variable -/
def isInt : Val → Bool
  | .int _ => true
  | _ => false

/-- a string: a string literal, the value of a string variable or field, or a missing field -/
def isStr : Val → Bool
  | .str _ | .missing _ => true
  | _ => false

/-- something executable: a function literal `{ … }` or a quoted name `'name` -/
def isExec : Val → Bool
  | .fn _ | .ref _ => true
  | _ => false

/-- the number of values a built-in pops (`interpreter.pop()`) before it does anything else: on
a shorter stack it raises `BibTeXError('pop from empty stack')`, whatever the operands are -/
def arity : Builtin → Nat
  | .gt | .lt | .eq | .mul | .assign | .plus | .minus | .changeCase | .swap | .textPrefix | .while_ => 2
  | .formatName | .if_ | .substring => 3
  | .addPeriod | .chrToInt | .duplicate | .empty | .intToChr | .intToStr | .missing | .numNames | .pop | .purify
  | .textLength | .top | .warning | .width | .write => 1
  | .callType | .cite | .newline | .preamble | .quote | .skip | .stack | .type_ => 0

/-- the string consists of white space only (`empty$`: "missing, empty or white space only") -/
def Blank (x : Str) : Prop := ∀ c ∈ x, isWs c = true

instance (x : Str) : Decidable (Blank x) := inferInstanceAs (Decidable (∀ c ∈ x, isWs c = true))

/-- what `top$` / `stack$` print for a value: the decimal representation of an integer, a
string as it is (a missing field as the empty string); for a function or variable object Python
prints its `repr` (which may contain a memory address): abstracted to the tag `<object>` -/
def shown : Val → Str
  | .int n => (toString n).toList
  | .str x => x
  | .missing _ => []
  | .fn _ | .ref _ => "<object>".toList

/-- the characters after which `add.period$` adds nothing -/
def EndsSentence (c : Char) : Prop := c = '.' ∨ c = '?' ∨ c = '!'

instance (c : Char) : Decidable (EndsSentence c) := inferInstanceAs (Decidable (c = '.' ∨ c = '?' ∨ c = '!'))

/-- the conversion letter of `change.case$` (`t`itle, `l`ower, `u`pper; the caller lower-cases
the first character of the mode string) -/
def caseModeOf (c : Char) : Option CaseMode :=
  if c = 'l' then some .l else if c = 'u' then some .u else if c = 't' then some .t else none

/-! ### order of strings (`<`, `>`, `SORT`) -/

/-- Code-point lexicographic order: a proper prefix comes first; otherwise the first differing
character decides, by its code point. -/
inductive LexLt : Str → Str → Prop
  | nil {c : Char} {t : Str} : LexLt [] (c :: t)
  | lt {a b : Char} {r t : Str} : a.toNat < b.toNat → LexLt (a :: r) (b :: t)
  | eq {a : Char} {r t : Str} : LexLt r t → LexLt (a :: r) (a :: t)

/-! ### the built-ins that only transform the stack -/

/-- The documented effect of the built-in functions that only transform the stack, as a table:
`Doc b args res` — called with the operands `args` on top of the stack (top FIRST, i.e. in the
reverse of the documentation's order) the built-in `b` replaces them by `res`.
(`write$`, `newline$`, `warning$`, `top$`, `stack$`, `:=`, `cite$`, `type$`, `preamble$`,
`call.type$`, `if$`, `while$` involve more of the state and have their own theorems.) -/
inductive Doc : Builtin → List Val → List Val → Prop
  | plus (a b : Int) : Doc .plus [.int b, .int a] [.int (a + b)]
  | minus (a b : Int) : Doc .minus [.int b, .int a] [.int (a - b)]
  | concat {vx vy : Val} {x y : Str} : valToStr vx = some x → valToStr vy = some y → Doc .mul [vy, vx] [.str (x ++ y)]
  | gt (a b : Int) : Doc .gt [.int b, .int a] [.int (if a > b then 1 else 0)]
  | lt (a b : Int) : Doc .lt [.int b, .int a] [.int (if a < b then 1 else 0)]
  | eqInt (a b : Int) : Doc .eq [.int b, .int a] [.int (if a = b then 1 else 0)]
  | eqStr {vx vy : Val} {x y : Str} : valToStr vx = some x → valToStr vy = some y →
      Doc .eq [vy, vx] [.int (if x = y then 1 else 0)]
  | duplicate (v : Val) : Doc .duplicate [v] [v, v]
  | pop (v : Val) : Doc .pop [v] []
  | swap (v w : Val) : Doc .swap [w, v] [v, w]
  | skip : Doc .skip [] []
  | quote : Doc .quote [] [.str ['"']]
  | empty {v : Val} {x : Str} : valToStr v = some x → Doc .empty [v] [.int (if Blank x then 1 else 0)]
  | missingYes (m : Str) : Doc .missing [.missing m] [.int 1]
  | missingNo {v : Val} : (∀ m, v ≠ .missing m) → Doc .missing [v] [.int 0]
  | chrToInt (c : Char) : Doc .chrToInt [.str [c]] [.int c.toNat]
  | intToChr {n : Int} : 0 ≤ n → n < 0x110000 → ¬ (0xD800 ≤ n ∧ n ≤ 0xDFFF) →
      Doc .intToChr [.int n] [.str [Char.ofNat n.toNat]]       -- (surrogate code points are not modelled)
  | intToStr (n : Int) : Doc .intToStr [.int n] [.str (toString n).toList]
  | substring {v : Val} {x : Str} (start len : Int) : valToStr v = some x →
      Doc .substring [.int len, .int start, v] [.str (Spec.substring x start len)]
  | textLength {v : Val} {x : Str} {n : Nat} : valToStr v = some x → bibtexLen x = some n → Doc .textLength [v] [.int n]
  | textPrefix {v : Val} {x p : Str} (n : Int) : valToStr v = some x → bibtexPrefix x n = some p →
      Doc .textPrefix [.int n, v] [.str p]
  | purify {v : Val} {x p : Str} : valToStr v = some x → bibtexPurify x = some p → Doc .purify [v] [.str p]
  | width {v : Val} {x : Str} {w : Int} : valToStr v = some x → bibtexWidthStd x = some w → Doc .width [v] [.int w]
  | numNames {v : Val} {x : Str} : valToStr v = some x → Doc .numNames [v] [.int (splitNameList x).length]
  | changeCase {vm vx : Val} {x m y : Str} {c : Char} {md : CaseMode} : valToStr vm = some (c :: m) →
      valToStr vx = some x → caseModeOf (lowerC c) = some md → changeCase x md = some y →
      Doc .changeCase [vm, vx] [.str y]
  | addPeriod (x : Str) : Doc .addPeriod [.str x] [.str (addPeriod x)]
  | addPeriodMissing (m : Str) : Doc .addPeriod [.missing m] [.missing m]
  | formatName {vn vf : Val} {names fmt name out : Str} {n : Int} : valToStr vn = some names →
      valToStr vf = some fmt → 1 ≤ n → (splitNameList names)[(n - 1).toNat]? = some name →
      formatName name fmt = .ok (out, false) → Doc .formatName [vf, .int n, vn] [.str out]

/-! ### fuel-free big-step judgements

The model takes fuel (the language has `while$` and recursion through `'name`); a program
*evaluates to* a state when some amount of fuel suffices. -/

def EvalVal (v : Val) (s s' : St) : Prop := ∃ n, execVal n v s = .ok s'
def EvalObj (o : VarObj) (s s' : St) : Prop := ∃ n, execObj n o s = .ok s'
def EvalBody (b : List BTok) (s s' : St) : Prop := ∃ n, execBody n b s = .ok s'
def EvalBuiltin (b : Builtin) (s s' : St) : Prop := ∃ n, runBuiltin n b s = .ok s'
def EvalWhile (p f : Val) (s s' : St) : Prop := ∃ n, whileLoop n p f s = .ok s'

/-- a run has finished: any result but "out of fuel" -/
def Finished (r : Except IErr St) : Prop := r ≠ .error .outOfFuel

/-! ### `ITERATE` / `REVERSE` -/

/-- "execute the function once for each entry of the list, in order, with that entry current":
the left fold of `call` over the keys, stopping at the first error; between the calls and after
the last one no entry is current. -/
def foldEntries (call : St → Except IErr St) : List Str → St → Except IErr St
  | [], s => .ok s
  | k :: ks, s =>
    match call { s with cur := some k } with
    | .error e => .error e
    | .ok s' => foldEntries call ks { s' with cur := none }

/-! ### `SORT` -/

/-- the key an entry is sorted on: its `sort.key$`, the empty string if it was never assigned -/
def sortKey (s : St) (c : Str) : Str :=
  match dget (frameOf s c) "sort.key$".toList with
  | some (.str k) => k
  | _ => []

/-- non-decreasing in the key -/
def SortedBy {α : Type} (key : α → Str) (l : List α) : Prop :=
  l.Pairwise fun a b => ¬ LexLt (key b) (key a)

/-- `l'` keeps the elements of every key class of `l`, in their order in `l` (stability; together
with `SortedBy` this determines `l'`, and it implies that `l'` is a permutation of `l`). -/
def StableWrt {α : Type} (key : α → Str) (l l' : List α) : Prop :=
  ∀ k, l'.filter (fun a => key a = k) = l.filter (fun a => key a = k)

/-! ### output (`write$`, `newline$`) -/

/- `OutEv` (an output event: `write x` / `newline`) is defined next to the state, whose ghost
component `St.trace` records the events of a run: `Model/Interp.lean`. -/

/-- the effect of an output event on (emitted lines, pending buffer) -/
def emit : List Str × List Str → OutEv → List Str × List Str
  | (ls, buf), .write x => (ls, buf ++ [x])
  | (ls, buf), .newline => (ls ++ [Wrap.wrapDefault buf.flatten, ['\n']], [])

/-- The `.bbl` text a sequence of output events defines, `pending` being the text written since
the last `newline$`: every `newline$` contributes the wrapped pending text and a line feed;
what is written after the last `newline$` is never output. -/
def render : Str → List OutEv → Str
  | _, [] => []
  | pending, .write x :: r => render (pending ++ x) r
  | pending, .newline :: r => Wrap.wrapDefault pending ++ '\n' :: render [] r

/-! ### what executing style code may change -/

/-- The variable table after execution: every name keeps its object, except that the *value* of
a global integer / string variable may have been changed (by `:=`).  In particular functions,
fields, entry variables and built-ins are never redefined, created or deleted by execution. -/
def VarsPersist (v v' : CIDict VarObj) : Prop :=
  ∀ n, v'.getItem n = v.getItem n ∨
    (∃ a b, v.getItem n = some (.gint a) ∧ v'.getItem n = some (.gint b)) ∨
    (∃ a b, v.getItem n = some (.gstr a) ∧ v'.getItem n = some (.gstr b))

/-- Frame of an execution started in `s` and ended in `s'` (any function body, built-in,
`EXECUTE`, one round of `ITERATE`): the current entry, the database, the citation list, the
macros and the preamble are untouched; the entry variables of every entry other than the
current one are untouched; variables persist; output happens only through write/newline
events — the events `evs` the execution appends to the trace of `write$` / `newline$` calls
(`St.trace`: `C03_builtin_write`, `C03_builtin_newline`, `C03_trace_only_write_newline`) are what
takes (lines, buffer) of `s` to those of `s'`; reports and `top$`/`stack$` print-outs are only
appended. -/
structure Frame (s s' : St) : Prop where
  cur : s'.cur = s.cur
  db : s'.db = s.db
  citations : s'.citations = s.citations
  macros : s'.macros = s.macros
  preamble : s'.preamble = s.preamble
  entry : ∀ k, s.cur ≠ some k → dget s'.entryVars k = dget s.entryVars k
  vars : VarsPersist s.vars s'.vars
  out : ∃ evs : List OutEv, s'.trace = s.trace ++ evs ∧ (s'.lines, s'.buffer) = evs.foldl emit (s.lines, s.buffer)
  reports : s.reports <+: s'.reports
  printed : s.printed <+: s'.printed

/-- Frame of a command: output only through write/newline events, reports and print-outs only
appended; and, for every command but `READ`, the database is kept and the citation list is kept
up to order. -/
structure CmdFrame (c : Command) (s s' : St) : Prop where
  out : ∃ evs : List OutEv, s'.trace = s.trace ++ evs ∧ (s'.lines, s'.buffer) = evs.foldl emit (s.lines, s.buffer)
  reports : s.reports <+: s'.reports
  printed : s.printed <+: s'.printed
  db : upper c.name ≠ "READ".toList → s'.db = s.db
  citations : upper c.name ≠ "READ".toList → s'.citations.Perm s.citations


/-- the invariant that makes `ITERATE` / `REVERSE` a plain fold: the database has been read and
holds every entry of the citation list -/
def Ready (s : St) : Prop := ∃ db, s.db = some db ∧ ∀ k ∈ s.citations, db.entries.contains k = true


/-! ### declarations (`ENTRY`, `INTEGERS`, `STRINGS`, `FUNCTION`) -/

/-- `s'` is `s` with exactly the variables `ds` (name, object) declared: each listed name is
bound to its object, every other name (up to case) is bound as before, nothing else changes. -/
structure Declares (ds : List (Str × VarObj)) (s s' : St) : Prop where
  frame : s' = { s with vars := s'.vars }
  declared : ∀ p ∈ ds, s'.vars.getItem p.1 = some p.2
  others : ∀ n, (∀ p ∈ ds, lower p.1 ≠ lower n) → s'.vars.getItem n = s.vars.getItem n

/-- none of the names is declared yet and no two of them are equal up to case -/
def Fresh (ns : List Str) (s : St) : Prop :=
  (∀ n ∈ ns, s.vars.contains n = false) ∧ ns.Pairwise fun a b => lower a ≠ lower b

/-- the variables `ENTRY {fields} {ints} {strings}` declares, in declaration order -/
def entryDecls (fields ints strings : List Str) : List (Str × VarObj) :=
  fields.map (fun n => (n, VarObj.field n)) ++ [("crossref".toList, VarObj.crossref)] ++
    ints.map (fun n => (n, VarObj.eint n)) ++ strings.map (fun n => (n, VarObj.estr n))

/-! ### `READ` -/

/-- the state of the `.bib` reader when `READ` starts it: the `MACRO` table of the style as the
initial macros (it replaces the predefined month names), no person fields (`person_fields=[]`:
`author` / `editor` stay text), and only the cited entries wanted (`wanted_entries=citations`) -/
def readerStart (s : St) : Bib.St :=
  { rest := [], macros := CIDict.ofPairs s.macros,
    db := { wanted := some (CISet.ofList s.citations), citations := CISet.ofList s.citations }, roles := [] }

/-- what the reader delivers: the `.bib` texts parsed one after the other by one reader (C01: one
database, one macro table, the problems reported on the way), or — with a `bib_format` reader —
the entries that reader delivers, in its order, passed through `add_entry` (C05) -/
def readerResult (inp : Input) (s : St) : Bib.St :=
  match inp.alt with
  | none => (readAll inp.bibTexts (readerStart s)).1
  | some (es, pre) =>
    es.foldl (fun st ke => match Bib.addEntry st ke.1 ke.2 with | .ok _ st => st | .fail _ st => st)
      { readerStart s with db := { (readerStart s).db with preamble := pre } }

end Pybtex.BstSem
