/-
Reference for the operators the case-insensitive containers inherit from `collections.abc`
(`Model/CIMapX.lean`): what they mean for the reference set (`OSet`: the lower-cased keys with their
remembered spelling) and the reference ordered map (`OMap`).  Results are sets of lower-cased keys,
given as lists read as sets (order and repetitions do not matter).
-/
import PybtexModel.Spec.OrderedMapU
import PybtexModel.Model.CIMapX

namespace Pybtex.Uni

namespace OSet
variable (norm : Str → Str)

/-- the lower-cased keys present in the other operand -/
def otherKeys (s : OSet) : Other → List Str
  | .list l => l.map norm
  | .ciset t => members t.keys
  | .self => members s

/-- `s & other`: the members of `s` that are in `other` -/
def specAnd (s : OSet) (o : Other) : List Str := (members s).filter fun k => (otherKeys norm s o).contains k
/-- `s - other` -/
def specSub (s : OSet) (o : Other) : List Str := (members s).filter fun k => !(otherKeys norm s o).contains k
/-- `other - s` -/
def specRsub (s : OSet) (o : Other) : List Str := (otherKeys norm s o).filter fun k => !(members s).contains k
/-- `s | other` -/
def specOr (s : OSet) (o : Other) : List Str := members s ++ specRsub norm s o
/-- `s ^ other` -/
def specXor (s : OSet) (o : Other) : List Str := specSub norm s o ++ specRsub norm s o
def specDisjoint (s : OSet) (o : Other) : Bool := (specAnd norm s o).isEmpty
/-- `s <= t`: every member of `s` is a member of `t` -/
def specLe (s t : OSet) : Bool := (members s).all fun k => (members t).contains k
def specEq (s t : OSet) : Bool := specLe s t && specLe t s
def specLt (s t : OSet) : Bool := specLe s t && !specLe t s

end OSet

namespace OMap
variable {V : Type} [DecidableEq V]

/-- `m == m'` as `Mapping.__eq__` has it: the same (spelling, value) pairs, in any order -/
def specEq (m m' : OMap V) : Bool :=
  ((items m).all fun p => (items m').contains p) && ((items m').all fun p => (items m).contains p)

/-- `items_lower()` -/
def itemsLower (m : OMap V) : List (Str × V) := items (lowered m)

end OMap

end Pybtex.Uni
