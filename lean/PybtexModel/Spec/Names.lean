/-
C04 reference: how BibTeX splits a name into First / von / Last / Jr, written from the rule
(btxhak; "Tame the BeaST" §11), independently of pybtex's `_parse_string` control flow.
Tokenisation (maximal brace-level-0 runs between BibTeX white space, ties, `\ `) and comma
splitting are the C12 primitives `splitTex`.
-/
import PybtexModel.Model.Names

namespace Pybtex.Spec

inductive TokCase | upper | lower | caseless
deriving DecidableEq, Repr

/-! Character classes.  BibTeX itself knows the ASCII letters only; the rule is stated with the
classes the implementation runs with — Python's `str.isalpha` / `isupper` / `islower` on one
character (`isAlphaN` / `isUpperN` / `isLowerN`, tables regenerated from the interpreter), which
coincide with the ASCII classes below U+0080 (`Names.ascii_classes`).  Beyond ASCII "letter"
and "cased" are independent: a letter may have no case (毛, ב, 김, U+02BB, titlecase ǅ), and a
cased character need not be a letter (Ⓐ U+24B6, ⓐ U+24D0, U+0345).  No character is both upper
and lower case (`Names.upper_lower_disjoint`). -/

/-- case of one character; a character that is neither upper nor lower case (digits,
punctuation, letters of scripts without case, titlecase letters) is caseless. -/
def charCase (c : Char) : TokCase :=
  if isUpperN c then .upper else if isLowerN c then .lower else .caseless

/-- case of a special character `\cs…`: the case of the first letter after the control
sequence (= after the first non-letter that follows the backslash); none ⇒ caseless. -/
def specialCase (sc : Str) : TokCase :=
  let afterCs := (sc.drop 1).dropWhile isAlphaN     -- starts at the first non-letter (or is empty)
  match (afterCs.drop 1).find? isAlphaN with
  | some c => charCase c
  | none => .caseless

/-- case decided by the scan: the first brace-level-0 letter (a level-0 token is one
character: `charCase` of it; a letter without case makes the token caseless), or the first
special character (level-1 token starting with a backslash) if that comes first; else caseless. -/
def tokCaseOf : List Tok → TokCase
  | [] => .caseless
  | (t, l) :: r =>
    if l = 0 ∧ t ≠ [] ∧ t.all isAlphaN then
      (if t.all isUpperN then .upper else if t.all isLowerN then .lower else .caseless)
    else if l = 1 ∧ startsWithBackslash t then specialCase t
    else tokCaseOf r

/-- The case of a token.  A token whose first character is cased has that case (for a letter
this is what the scan gives as well, `Names.tokenCase_eq_scan`; a cased character that is not a
letter counts in this position only); otherwise the first brace-level-0 letter or special
character decides.  `none` when the token nests braces deeper than BibTeX's limit. -/
def tokenCase (tok : Str) : Option TokCase :=
  (scan tok).map fun toks =>
    match tok.head?.map charCase with
    | some .upper => .upper
    | some .lower => .lower
    | _ => tokCaseOf toks

def isLow (tok : Str) : Bool := tokenCase tok = some .lower

/-- index of the last element satisfying `p`. -/
def lastIdx (p : α → Bool) (l : List α) : Option Nat :=
  match l.reverse.findIdx? p with
  | some i => some (l.length - 1 - i)
  | none => none

/-- "von Last": von = everything up to the last lower-case token that is not the final
token; Last = the rest (all tokens if there is no such lower-case token). -/
def vonLast (ts : List Str) : List Str × List Str :=
  match lastIdx isLow ts.dropLast with
  | some i => (ts.take (i + 1), ts.drop (i + 1))
  | none => ([], ts)

/-- The split of a stripped name string. -/
def split (name : Str) : Person × Bool :=
  let parts0 := splitTex .comma name
  let tooMany := decide (parts0.length > 3)
  match parts0 with
  | [] => ({}, tooMany)
  | [_] =>
    let ts := splitTex .space name
    match ts.findIdx? isLow with
    | none =>   -- no lower-case token: Last is the final token, First everything before
      let first := ts.dropLast
      (({ first := first.take 1, middle := first.drop 1, last := ts.drop (ts.length - 1) } : Person), tooMany)
    | some i0 =>
      let first := ts.take i0
      let vl := vonLast (ts.drop i0)
      (({ first := first.take 1, middle := first.drop 1, prelast := vl.1, last := vl.2 } : Person), tooMany)
  | [a, b] =>
    let vl := vonLast (splitTex .space a)
    let first := splitTex .space b
    ({ first := first.take 1, middle := first.drop 1, prelast := vl.1, last := vl.2 }, tooMany)
  | a :: b :: rest =>
    let vl := vonLast (splitTex .space a)
    -- more than three parts: the extra ones are joined (by blanks) into the First part
    let first := splitTex .space (joinWith [' '] rest)
    ({ first := first.take 1, middle := first.drop 1, prelast := vl.1, last := vl.2,
       lineage := splitTex .space b }, tooMany)

/-! ### which tokens have their case examined (used by the statements of `Props/C04.lean`) -/

/-- The tokens whose case decides the split: every token of a name without commas; in the
comma forms the tokens of the first part except its final token (which is always Last). -/
def caseTokens (name : Str) : List Str :=
  match splitTex .comma name with
  | [] => []
  | [_] => splitTex .space name
  | a :: _ => (splitTex .space a).dropLast

/-- The case of the token is decidable within BibTeX's brace-nesting limit: the token scans,
or it starts with an upper-case character (then it is upper-case whatever follows). -/
def caseKnown (tok : Str) : Bool :=
  (match tok with
   | c :: _ => isUpperN c
   | [] => false) || (scan tok).isSome

end Pybtex.Spec
