/-
C04 reference: how BibTeX splits a name into First / von / Last / Jr, written from the rule
(btxhak; "Tame the BeaST" §11), independently of pybtex's `_parse_string` control flow.
Tokenisation (maximal brace-level-0 runs between BibTeX white space, ties, `\ `) and comma
splitting are the C12 primitives `splitTex`.
-/
import PybtexModel.Model.Names

namespace Pybtex.Spec

inductive TokCase | upper | lower | caseless
deriving DecidableEq, Repr

/-! Character classes.  BibTeX itself knows the ASCII letters only; the rule is stated with the
classes the implementation runs with — Python's `str.isalpha` / `isupper` / `islower` on one
character (`isAlphaN` / `isUpperN` / `isLowerN`, tables regenerated from the interpreter), which
coincide with the ASCII classes below U+0080 (`Names.ascii_classes`).  Beyond ASCII "letter"
and "cased" are independent: a letter may have no case (毛, ב, 김, U+02BB, titlecase ǅ), and a
cased character need not be a letter (Ⓐ U+24B6, ⓐ U+24D0, U+0345).  No character is both upper
and lower case (`Names.upper_lower_disjoint`). -/

/-- case of one character; a character that is neither upper nor lower case (digits,
punctuation, letters of scripts without case, titlecase letters) is caseless. -/
def charCase (c : Char) : TokCase :=
  if isUpperN c then .upper else if isLowerN c then .lower else .caseless

/-- BibTeX's built-in foreign characters (bibtex.web §§ 397–401 `von_token_found`, pre-defined `control_seq_ilk` entries): the
case of a special character whose control sequence is one of these thirteen is looked up, not
searched for: `\i \j \oe \ae \aa \o \l \ss` are lower case, `\OE \AE \AA \O \L` upper case. -/
def builtinCase (cs : Str) : Option TokCase :=
  if cs ∈ ["i", "j", "oe", "ae", "aa", "o", "l", "ss"].map String.toList then some .lower
  else if cs ∈ ["OE", "AE", "AA", "O", "L"].map String.toList then some .upper
  else none

/-- case of a special character `\cs…`: the case of a built-in foreign character if the control
sequence (the letters after the backslash) is one; otherwise the case of the first letter after
the control sequence (= after the first non-letter that follows the backslash); none ⇒ caseless. -/
def specialCase (sc : Str) : TokCase :=
  match builtinCase ((sc.drop 1).takeWhile isAlphaN) with
  | some c => c
  | none =>
    let afterCs := (sc.drop 1).dropWhile isAlphaN     -- starts at the first non-letter (or is empty)
    match (afterCs.drop 1).find? isAlphaN with
    | some c => charCase c
    | none => .caseless

/-- case decided by the scan: the first brace-level-0 letter (a level-0 token is one
character: `charCase` of it; a letter without case makes the token caseless), or the first
special character if that comes first — the level-1 token starting with a backslash that directly
follows the token of the brace opening its group (`afterOpen`; a backslash further inside an
ordinary group is no special character, the group is passed over: repair C04-3); else caseless.
`Props/C04.lean` (`C04_case_bibtex_partial`) shows that this is the scanner-free rule `tokenCaseBibtex`
below on every token within the scanner's nesting limit. -/
def tokCaseFrom : Bool → List Tok → TokCase
  | _, [] => .caseless
  | afterOpen, (t, l) :: r =>
    if l = 0 ∧ t ≠ [] ∧ t.all isAlphaN then
      (if t.all isUpperN then .upper else if t.all isLowerN then .lower else .caseless)
    else if l = 1 ∧ startsWithBackslash t ∧ afterOpen = true then specialCase t
    else tokCaseFrom (decide (t = ['{'] ∧ l = 1)) r

def tokCaseOf (toks : List Tok) : TokCase := tokCaseFrom false toks

/-- The case of a token.  A token whose first character is cased has that case, whatever
follows (for a letter this is what the scan gives as well, `Names.tokenCase_eq_scan`; a cased
character that is not a letter counts in this position only); otherwise the first
brace-level-0 letter or special character decides.  A token that nests braces deeper than the
scanner follows them (`maxLevel` = 100; BibTeX has no such limit, its limits are buffer sizes)
and does not start with a cased character has no case. -/
def tokenCase (tok : Str) : TokCase :=
  match tok.head?.map charCase with
  | some .upper => .upper
  | some .lower => .lower
  | _ =>
    match scan tok with
    | some toks => tokCaseOf toks
    | none => .caseless

def isLow (tok : Str) : Bool := tokenCase tok = .lower

/-- index of the last element satisfying `p`. -/
def lastIdx (p : α → Bool) (l : List α) : Option Nat :=
  match l.reverse.findIdx? p with
  | some i => some (l.length - 1 - i)
  | none => none

/-- "von Last": von = everything up to the last lower-case token that is not the final
token; Last = the rest (all tokens if there is no such lower-case token). -/
def vonLast (ts : List Str) : List Str × List Str :=
  match lastIdx isLow ts.dropLast with
  | some i => (ts.take (i + 1), ts.drop (i + 1))
  | none => ([], ts)

/-- The split of a stripped name string. -/
def split (name : Str) : Person × Bool :=
  let parts0 := splitTex .comma name
  let tooMany := decide (parts0.length > 3)
  match parts0 with
  | [] => ({}, tooMany)
  | [_] =>
    let ts := splitTex .space name
    match ts.findIdx? isLow with
    | none =>   -- no lower-case token: Last is the final token, First everything before
      let first := ts.dropLast
      (({ first := first.take 1, middle := first.drop 1, last := ts.drop (ts.length - 1) } : Person), tooMany)
    | some i0 =>
      let first := ts.take i0
      let vl := vonLast (ts.drop i0)
      (({ first := first.take 1, middle := first.drop 1, prelast := vl.1, last := vl.2 } : Person), tooMany)
  | [a, b] =>
    let vl := vonLast (splitTex .space a)
    let first := splitTex .space b
    ({ first := first.take 1, middle := first.drop 1, prelast := vl.1, last := vl.2 }, tooMany)
  | a :: b :: rest =>
    let vl := vonLast (splitTex .space a)
    -- more than three parts: the extra ones are joined (by blanks) into the First part
    let first := splitTex .space (joinWith [' '] rest)
    ({ first := first.take 1, middle := first.drop 1, prelast := vl.1, last := vl.2,
       lineage := splitTex .space b }, tooMany)

/-! ### which tokens have their case examined (used by the statements of `Props/C04.lean`) -/

/-- The tokens whose case decides the split: every token of a name without commas; in the
comma forms the tokens of the first part except its final token (which is always Last). -/
def caseTokens (name : Str) : List Str :=
  match splitTex .comma name with
  | [] => []
  | [_] => splitTex .space name
  | a :: _ => (splitTex .space a).dropLast

/-- The token's case is found without running into the scanner's brace-nesting limit: the token
scans, or it starts with an upper-case character.  (No theorem of C04 needs this any more — after
the repair C04-1 model and rule agree on every token; kept for the statements of C02.) -/
def caseKnown (tok : Str) : Bool :=
  (match tok with
   | c :: _ => isUpperN c
   | [] => false) || (scan tok).isSome

/-! ### the tokeniser, stated from the property text

"split into tokens at brace-level-0 whitespace and ties … braced groups are never split": one
left-to-right pass that only counts braces — independent of the algorithm of `split_tex_string`
(`partition('{')` / `re.split` / `_find_closing_brace`, modelled by `splitTex`).  Used by the
oracle as the reference for the tokens of a name whose brace groups are all closed
(`groupsClosed`; on a string with an unclosed group the code treats the text after the last
brace as brace-level 0, which the property text does not describe). -/

/-- length of the token separator at the head of the text (0 = none): a control space `\ ` (2),
a white-space character (1), a tie `~` that is not the accent `\~` (1). -/
def nameSepAt (prev : Option Char) : Str → Nat
  | '\\' :: ' ' :: _ => 2
  | c :: _ => if isWs c || (c == '~' && prev != some '\\') then 1 else 0
  | [] => 0

/-- `d` = brace level, `skip` = characters of the current separator still to pass, `prev` = the
previous character, `cur` = the token collected so far. -/
def nameTokensAux : Nat → Nat → Option Char → Str → Str → List Str
  | _, _, _, cur, [] => if cur = [] then [] else [cur]
  | d, skip + 1, _, cur, c :: r => nameTokensAux d skip (some c) cur r
  | d, 0, prev, cur, c :: r =>
    if c = '{' then nameTokensAux (d + 1) 0 (some c) (cur ++ [c]) r
    else if c = '}' then nameTokensAux (d - 1) 0 (some c) (cur ++ [c]) r
    else if d = 0 ∧ nameSepAt prev (c :: r) > 0 then
      (if cur = [] then [] else [cur]) ++ nameTokensAux 0 (nameSepAt prev (c :: r) - 1) (some c) [] r
    else nameTokensAux d 0 (some c) (cur ++ [c]) r

/-- the tokens of a text: the maximal pieces between brace-level-0 separators, in order -/
def nameTokens (s : Str) : List Str := nameTokensAux 0 0 none [] s

/-- comma parts: the pieces between brace-level-0 commas (white space around each removed) -/
def nameCommaPartsAux : Nat → Str → Str → List Str
  | _, cur, [] => [strip cur]
  | d, cur, c :: r =>
    if c = '{' then nameCommaPartsAux (d + 1) (cur ++ [c]) r
    else if c = '}' then nameCommaPartsAux (d - 1) (cur ++ [c]) r
    else if d = 0 ∧ c = ',' then strip cur :: nameCommaPartsAux 0 [] r
    else nameCommaPartsAux d (cur ++ [c]) r

def nameCommaParts (s : Str) : List Str := if s = [] then [] else nameCommaPartsAux 0 [] s

/-- every brace group of the text is closed (a `}` at brace level 0 is an ordinary character) -/
def groupsClosed (s : Str) : Bool :=
  s.foldl (fun d c => if c = '{' then d + 1 else if c = '}' then d - 1 else d) 0 = 0

/-! ### the case rule as bibtex.web states it, without the scanner

`tokenCase` above runs on the token list of the shared scanner (`scan`, the model of
`scan_bibtex_string`): "brace level" and "special character" are that scanner's notions.  The rule of
bibtex.web (§§ 397–401 `von_token_found`) is restated here as ONE pass over the characters with a
brace counter and nothing else: at brace level 0 a letter decides; a `{` at level 0 that is
immediately followed by a backslash starts a special character, which decides (`specialCase` of its
text up to the matching `}`); any other group is skipped, whatever it contains.
`Props/C04.lean` (`C04_case_bibtex_partial`): `tokenCase` agrees on every token within the nesting limit. -/

/-- the text of a special character: everything up to the brace that closes it (`k` = braces open,
the one that started it included); an unclosed one extends to the end -/
def specialBody : Nat → Str → Str
  | _, [] => []
  | k, c :: r =>
    if c = '{' then c :: specialBody (k + 1) r
    else if c = '}' then (if k ≤ 1 then [] else c :: specialBody (k - 1) r)
    else c :: specialBody k r

/-- `d` = brace level -/
def caseBibtex : Nat → Str → TokCase
  | _, [] => .caseless
  | d, c :: r =>
    if c = '{' then
      if d = 0 ∧ r.head? = some '\\' then specialCase (specialBody 1 r)
      else caseBibtex (d + 1) r
    else if c = '}' then caseBibtex (d - 1) r
    else if d = 0 ∧ isAlphaN c then charCase c
    else caseBibtex d r

/-- the token starts with a cased character (upper or lower case) -/
def firstCased (tok : Str) : Bool :=
  match tok.head? with
  | some c => isUpperN c || isLowerN c
  | none => false

/-- the case of a token, scanner-free: a cased first character decides (as in `tokenCase`); else
the first brace-level-0 letter or special character -/
def tokenCaseBibtex (tok : Str) : TokCase :=
  match tok.head?.map charCase with
  | some .upper => .upper
  | some .lower => .lower
  | _ => caseBibtex 0 tok

/-! ### the whole split with the scanner-free case rule

`split` above, with the test "the token is lower-case" as a parameter; `splitBibtex` uses the
scanner-free rule of bibtex.web (`tokenCaseBibtex`).  `Props/C04.lean` (`C04_matches_bibtex_rule`):
the model of `Person._parse_string` equals `splitBibtex` on every name whose case-deciding tokens
are within the nesting limit. -/

def vonLastBy (low : Str → Bool) (ts : List Str) : List Str × List Str :=
  match lastIdx low ts.dropLast with
  | some i => (ts.take (i + 1), ts.drop (i + 1))
  | none => ([], ts)

def splitBy (low : Str → Bool) (name : Str) : Person × Bool :=
  let parts0 := splitTex .comma name
  let tooMany := decide (parts0.length > 3)
  match parts0 with
  | [] => ({}, tooMany)
  | [_] =>
    let ts := splitTex .space name
    match ts.findIdx? low with
    | none =>
      let first := ts.dropLast
      (({ first := first.take 1, middle := first.drop 1, last := ts.drop (ts.length - 1) } : Person), tooMany)
    | some i0 =>
      let first := ts.take i0
      let vl := vonLastBy low (ts.drop i0)
      (({ first := first.take 1, middle := first.drop 1, prelast := vl.1, last := vl.2 } : Person), tooMany)
  | [a, b] =>
    let vl := vonLastBy low (splitTex .space a)
    let first := splitTex .space b
    ({ first := first.take 1, middle := first.drop 1, prelast := vl.1, last := vl.2 }, tooMany)
  | a :: b :: rest =>
    let vl := vonLastBy low (splitTex .space a)
    let first := splitTex .space (joinWith [' '] rest)
    ({ first := first.take 1, middle := first.drop 1, prelast := vl.1, last := vl.2,
       lineage := splitTex .space b }, tooMany)

/-- "the token is lower-case" by the scanner-free rule -/
def isLowBibtex (tok : Str) : Bool := tokenCaseBibtex tok = .lower

/-- the split of a stripped name with the case of every token decided by the scanner-free rule -/
def splitBibtex (name : Str) : Person × Bool := splitBy isLowBibtex name

end Pybtex.Spec
