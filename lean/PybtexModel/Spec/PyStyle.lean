/-
Reference notions for property C07 (Python-engine bibliography).  A reader has to agree with:

* `resolvedKeys` / `storedEntry` / `resolvedEntries` — the citations the engine has to format
  (C05's resolution, missing keys dropped) and the database entries they denote;
* `SortedBy`, `eqv` — what "sorted" and "equal keys" mean for a comparison `lt`;
* `alphaProviso` — the decidable side condition under which the suffix letters of the alpha label
  style make the labels pairwise distinct; `year2` — the year suffix of an alpha label;
* `requiredNodes` — the `field`/`names` nodes of a template that are outside every `optional`;
  `Missing` — "evaluating left to right, the first node that fails is a `field`/`names` node
  named `f` whose lookup fails";
* `printed` — the `field` nodes whose value is part of the output of a successful evaluation;
  `printedN` — the name words (literal children of `name_part` nodes) that are part of it;
  `abbrPieces`, `abbrPiece` — what `abbreviate()` cuts a text into and what it shows of a piece;
* `endsInSentence` — a syntactic condition under which a non-empty output ends with `.`, `?`, `!`;
* `protAtoms` — the brace-protected characters of a rich text.
-/
import PybtexModel.Model.Template
import PybtexModel.Spec.RichText

namespace Pybtex.Tmpl.Spec
open Pybtex.RT

/-! ### the entries to format -/

/-- the resolved citation list (C05) without the keys that have no database entry -/
def resolvedKeys (es : List PEntry) (citations : List Str) (minCrossrefs : Int) : List Str :=
  (BibData.removeMissingPy (mkDb es) (BibData.addExtraCitations (mkDb es) citations minCrossrefs).1).1

/-- the entry a key denotes (keys are case-insensitive) -/
def storedEntry (es : List PEntry) (k : Str) : Option PEntry := es.find? fun e => lower e.key = lower k

def resolvedEntries (es : List PEntry) (citations : List Str) (minCrossrefs : Int) : List PEntry :=
  (resolvedKeys es citations minCrossrefs).filterMap (storedEntry es)

/-! ### order -/

/-- sorted w.r.t. the strict comparison `lt`: no element is greater than a later one -/
def SortedBy {α : Type} (lt : α → α → Bool) (l : List α) : Prop := l.Pairwise fun a b => lt b a = false

/-- neither is smaller: for a key comparison, "the keys are equal" -/
def eqv {α : Type} (lt : α → α → Bool) (a b : α) : Bool := !lt a b && !lt b a

/-- the comparison `sorted(entries, key=sorting_key)` uses -/
def keyLt (a b : PEntry) : Bool := tripleLt (sortingKey a) (sortingKey b)

/-! ### alpha labels -/

/-- the suffix letter number `k`: `chr(ord('a') + k)` -/
def suffixChar (k : Nat) : Char := Char.ofNat ('a'.toNat + k)

/-- Side condition for `C07_alpha_labels_partial` on the list of base labels: no base label
occurs more than 26 times, and no base label that occurs once equals a base label that occurs
more than once followed by one of the suffix letters it receives. -/
def alphaProviso (labels : List Str) : Bool :=
  labels.all fun l =>
    decide (countOf labels l ≤ 26) &&
    (countOf labels l != 1 ||
      labels.all fun m => countOf labels m == 1 ||
        (List.range (countOf labels m)).all fun k => l != m ++ [suffixChar k])

/-- the year suffix of an alpha label: `entry.fields["year"][-2:]`, nothing without a year -/
def year2 (e : PEntry) : Str :=
  if hasField e "year" then pySlice (getField e "year") (-2) ((getField e "year").length : Int) else []

/-! ### required fields -/

/-- the context in which the engine evaluates the template of entry `e` -/
def ctxOf (es : List PEntry) (e : PEntry) (it : Item) : Ctx :=
  { entry := e.toEntry, db := some (mkDb es), personTemplates := it.personTemplates, decode := it.decode }

/-- a lookup a template node performs: `field(name)` reads a field (own or inherited through
`crossref`, C14), `names(role)` reads the persons of a role of the entry itself -/
inductive Lookup where
  | field (name : Str)
  | names (role : Str)
deriving DecidableEq, Repr

def Lookup.name : Lookup → Str
  | .field n => n
  | .names r => r

/-- the lookup finds nothing: the field is absent along the whole cross-reference chain
(`_find_field` raises `KeyError`), resp. the entry itself has no persons in that role -/
def lookupFails (ctx : Ctx) : Lookup → Bool
  | .field n => (ctx.entry.findField n ctx.db).isNone
  | .names r => (ctx.personTemplates.find? fun p => lower p.1 = lower r).isNone

mutual
/-- the `field` / `names` nodes of a template that are outside every `optional` -/
def requiredNodes : T → List Lookup
  | .lit _ => []
  | .raw _ => []
  | .join _ _ _ cs => requiredNodesL cs
  | .together _ cs => requiredNodesL cs
  | .sentence _ _ _ _ cs => requiredNodesL cs
  | .field n _ _ => [.field n]
  | .names r _ _ _ => [.names r]
  | .optional _ => []
  | .firstOf cs => requiredNodesL cs
  | .tag _ cs => requiredNodesL cs
  | .href url _ cs => requiredNodesL cs ++ requiredNodes url
  | .namePart _ _ _ cs => requiredNodesL cs
def requiredNodesL : List T → List Lookup
  | [] => []
  | t :: ts => requiredNodes t ++ requiredNodesL ts
end

/-- all required nodes the evaluation of `t` in `ctx` can reach: those of `t` and those of the
name templates of the entry's persons (which a `names` node evaluates) -/
def allRequired (ctx : Ctx) (t : T) : List Lookup :=
  requiredNodes t ++ ctx.personTemplates.flatMap fun p => requiredNodesL p.2

/-- what is evaluated: a node, a list of children (all of them, left to right), or the
alternatives of a `first_of` (left to right until one is non-empty) -/
inductive Tgt where
  | node (t : T)
  | all (ts : List T)
  | first (ts : List T)

/-- `Missing ctx x f`: evaluating `x` left to right, the first node that fails is a `field` or
`names` node named `f` whose lookup finds nothing, and that node is not inside an `optional`.
(`first_of` is lazy: a later alternative is reached only when the earlier ones evaluate to empty
texts; an `optional` never fails with a missing field.) -/
inductive Missing (ctx : Ctx) : Tgt → Str → Prop where
  | field {n fn raw} : ctx.entry.findField n ctx.db = none → Missing ctx (.node (.field n fn raw)) n
  | names {r s s2 ls} : (ctx.personTemplates.find? fun p => lower p.1 = lower r) = none →
      Missing ctx (.node (.names r s s2 ls)) r
  | namesIn {r s s2 ls p f} : (ctx.personTemplates.find? fun p => lower p.1 = lower r) = some p →
      Missing ctx (.all p.2) f → Missing ctx (.node (.names r s s2 ls)) f
  | join {s s2 ls cs f} : Missing ctx (.all cs) f → Missing ctx (.node (.join s s2 ls cs)) f
  | together {lt cs f} : Missing ctx (.all cs) f → Missing ctx (.node (.together lt cs)) f
  | sentence {cf cap ap sep cs f} : Missing ctx (.all cs) f → Missing ctx (.node (.sentence cf cap ap sep cs)) f
  | tag {n cs f} : Missing ctx (.all cs) f → Missing ctx (.node (.tag n cs)) f
  | namePart {b tie abbr cs f} : Missing ctx (.all cs) f → Missing ctx (.node (.namePart b tie abbr cs)) f
  | hrefUrl {url ext cs f} : Missing ctx (.node url) f → Missing ctx (.node (.href url ext cs)) f
  | hrefKids {url ext cs f} : (∃ fuel u, eval fuel ctx url = .ok u) → Missing ctx (.all cs) f →
      Missing ctx (.node (.href url ext cs)) f
  | firstOf {cs f} : Missing ctx (.first cs) f → Missing ctx (.node (.firstOf cs)) f
  | allHead {t ts f} : Missing ctx (.node t) f → Missing ctx (.all (t :: ts)) f
  | allTail {t ts f} : (∃ fuel r, eval fuel ctx t = .ok r) → Missing ctx (.all ts) f → Missing ctx (.all (t :: ts)) f
  | firstHead {t ts f} : Missing ctx (.node t) f → Missing ctx (.first (t :: ts)) f
  | firstTail {t ts f} : (∃ fuel r, eval fuel ctx t = .ok r ∧ truthy r = false) → Missing ctx (.first ts) f →
      Missing ctx (.first (t :: ts)) f

/-! ### sentence terminators, protected text -/

/-- the text is empty or its last atom is one of the characters `.`, `?`, `!` -/
def Terminated (r : RT) : Prop := len r = 0 ∨ Flat.terminated Gen.terminators (sem [] r) = true

mutual
/-- A syntactic condition under which every non-empty value ends with a terminator: a `sentence`
with `add_period`; a literal that is empty or terminated; a `join` / `toplevel` / `words`,
`optional`, `first_of`, `tag` or `href` all of whose children satisfy the condition (the value
ends with the value of one of the children).  (`together`, `names`, `field`, `name_part` and a
`sentence` without `add_period` do not qualify.) -/
def endsInSentence : T → Bool
  | .lit r => len r == 0 || Flat.terminated Gen.terminators (sem [] r)
  | .sentence _ _ ap _ _ => ap
  | .join _ _ _ cs => endsInSentenceL cs
  | .optional cs => endsInSentenceL cs
  | .firstOf cs => endsInSentenceL cs
  | .tag _ cs => endsInSentenceL cs
  | .href _ _ cs => endsInSentenceL cs
  | .raw _ => false
  | .together _ _ => false
  | .field _ _ _ => false
  | .names _ _ _ _ => false
  | .namePart _ _ _ _ => false
def endsInSentenceL : List T → Bool
  | [] => true
  | t :: ts => endsInSentence t && endsInSentenceL ts
end

/-- the atoms (with their markup) that are under `Protected` — braces in the field value -/
def protAtoms (s : Flat) : Flat := s.filter fun x => Flat.isProt x.2

/-- What `LaTeXParser(v).parse()` denotes (`v` = the decoded value): the characters of `v` other than
braces, each under one `Protected` per enclosing brace level (`d` = current level; a stray
closing brace at level 0 cannot occur in a value that parses). -/
def flatLatex (d : Nat) : Str → Flat
  | [] => []
  | c :: r =>
    if c = '{' then flatLatex (d + 1) r
    else if c = '}' then flatLatex (d - 1) r
    else (.ch c, List.replicate d .prot) :: flatLatex d r

/-- the value with its braces removed -/
def stripBraces (v : Str) : Str := v.filter fun c => c != '{' && c != '}'

/-- everything but dashes: the atoms other than the character `-` and the symbol `ndash` -/
def nonDash (s : Flat) : Flat := s.filter fun x => x.1 != .ch '-' && x.1 != .sym "ndash".toList

/-! ### field coverage -/

/-- an occurrence of a `field` node whose value is part of the output; `caseChanged`: the node is
under a `sentence` with `capfirst` / `capitalize`, which may change the case of letters -/
structure Occ where
  name : Str
  fn : ApplyFn
  raw : Bool
  caseChanged : Bool
deriving Repr

/-- the value of a `field` node: the field (own or inherited), decoded by the codec and parsed
(`Text.from_latex`, unless `raw`), passed through the node's `apply_func` -/
def fieldValue (ctx : Ctx) (o : Occ) : Option RT :=
  match ctx.entry.findField o.name ctx.db with
  | none => none
  | some v =>
    if o.raw then some (applyFn o.fn (.str v))
    else match fromLatex (decodeOf ctx.decode v) with
      | .error _ => none
      | .ok r => some (applyFn o.fn r)

mutual
/-- The `field` nodes that contribute to the output of a successful evaluation (defined along
the evaluator, with the same fuel): all children of `join` / `together` / `sentence` / `tag` /
`href` (not the URL, which becomes the link target) / `name_part` without abbreviation, the name
templates a `names` node evaluates, the children of an `optional` only if none of them fails,
the chosen alternative of a `first_of`. -/
def printed : Nat → Ctx → T → List Occ
  | 0, _, _ => []
  | fuel + 1, ctx, t =>
    match t with
    | .lit _ => []
    | .raw _ => []
    | .join _ _ _ cs => printedL fuel ctx cs
    | .together _ cs => printedL fuel ctx cs
    | .sentence cf cap _ _ cs => (printedL fuel ctx cs).map fun o => { o with caseChanged := o.caseChanged || cf || cap }
    | .field n fn raw => [⟨n, fn, raw, false⟩]
    | .names role _ _ _ =>
      match (ctx.personTemplates.find? fun p => lower p.1 = lower role) with
      | none => []
      | some (_, ts) => printedL fuel ctx ts
    | .optional cs =>
      match evalList fuel ctx cs with
      | .ok _ => printedL fuel ctx cs
      | .error _ => []
    | .firstOf cs => printedF fuel ctx cs
    | .tag _ cs => printedL fuel ctx cs
    | .href _ _ cs => printedL fuel ctx cs
    | .namePart _ _ abbr cs => if abbr then [] else printedL fuel ctx cs
def printedL : Nat → Ctx → List T → List Occ
  | 0, _, _ => []
  | _ + 1, _, [] => []
  | fuel + 1, ctx, t :: ts => printed fuel ctx t ++ printedL fuel ctx ts
def printedF : Nat → Ctx → List T → List Occ
  | 0, _, _ => []
  | _ + 1, _, [] => []
  | fuel + 1, ctx, t :: ts =>
    match eval fuel ctx t with
    | .ok r => if truthy r then printed fuel ctx t else printedF fuel ctx ts
    | .error _ => []
end

/-- the text `value` occurs in `out` as a contiguous piece — literally, or (under a `sentence`
that changes case) up to the case of letters -/
def Covers (caseChanged : Bool) (value out : Str) : Prop :=
  if caseChanged then lower value <:+: lower out else value <:+: out

/-! ### name coverage -/

/-- an occurrence of a name word: a literal child of a `name_part` node (the name-style templates
`format_name(person, abbr)` are `join [name_part(…)[word, word, …], …]` with the words of the
person as literal rich texts); `abbr`: the node abbreviates its children -/
structure NOcc where
  text : RT
  abbr : Bool
  caseChanged : Bool
deriving Repr

/-- what the output shows of the word: the word, or `word.abbreviate()` -/
def NOcc.shown (o : NOcc) : RT := if o.abbr then abbreviate o.text else o.text

/-- the literal children of a node -/
def litsOf : List T → List RT
  | [] => []
  | .lit r :: ts => r :: litsOf ts
  | _ :: ts => litsOf ts

mutual
/-- The name words that contribute to the output of a successful evaluation: the literal children
of every `name_part` node on the evaluated path (same traversal as `printed`; in particular through
the name templates a `names` node evaluates). -/
def printedN : Nat → Ctx → T → List NOcc
  | 0, _, _ => []
  | fuel + 1, ctx, t =>
    match t with
    | .lit _ => []
    | .raw _ => []
    | .field _ _ _ => []
    | .join _ _ _ cs => printedNL fuel ctx cs
    | .together _ cs => printedNL fuel ctx cs
    | .sentence cf cap _ _ cs => (printedNL fuel ctx cs).map fun o => { o with caseChanged := o.caseChanged || cf || cap }
    | .names role _ _ _ =>
      match (ctx.personTemplates.find? fun p => lower p.1 = lower role) with
      | none => []
      | some (_, ts) => printedNL fuel ctx ts
    | .optional cs =>
      match evalList fuel ctx cs with
      | .ok _ => printedNL fuel ctx cs
      | .error _ => []
    | .firstOf cs => printedNF fuel ctx cs
    | .tag _ cs => printedNL fuel ctx cs
    | .href _ _ cs => printedNL fuel ctx cs
    | .namePart _ _ abbr cs =>
      (litsOf cs).map (fun r => ⟨r, abbr, false⟩) ++ (if abbr then [] else printedNL fuel ctx cs)
def printedNL : Nat → Ctx → List T → List NOcc
  | 0, _, _ => []
  | _ + 1, _, [] => []
  | fuel + 1, ctx, t :: ts => printedN fuel ctx t ++ printedNL fuel ctx ts
def printedNF : Nat → Ctx → List T → List NOcc
  | 0, _, _ => []
  | _ + 1, _, [] => []
  | fuel + 1, ctx, t :: ts =>
    match eval fuel ctx t with
    | .ok r => if truthy r then printedN fuel ctx t else printedNF fuel ctx ts
    | .error _ => []
end

/-- the pieces `abbreviate` works on: the text split at every white-space character and hyphen
outside `Protected`, the separators being pieces of their own -/
def abbrPieces (t : RT) : List RT := splitF (fun s => splitDelim s []) t

/-- what `abbreviate` makes of one piece: the first character and a period if the piece is
alphabetic (`str.isalpha` on every part), else the piece itself -/
def abbrPiece (w : RT) : Str :=
  if isAlphaTU w then (toStr w).take 1 ++ ['.'] else toStr w

end Pybtex.Tmpl.Spec
