/-
Reference notion for C12, splitting: the LEFTMOST-MATCH decomposition.

`SplitsTop` + "no part contains a top-level separator" (Spec/TeXString.lean) do not determine the
parts (`a and and b`: both `a | and b` and `a and | b` qualify; `a\ b`: the backslash may go
to the part or to the separator).  `SplitsFirst` does: each dropped separator is the FIRST match
that begins at a brace-level-0 position after the previous cut, taken as long as the pattern
allows — what `re.split` does.  It is written without reference to the model (no matcher
function: only "a match begins here" and "this is a complete match here"), and it is
deterministic (`SplitsFirst.unique`).
-/
import PybtexModel.Spec.TeXString

namespace Pybtex.Spec

/-! "a match of the separator BEGINS at the front of `t` when the text `a` precedes it" -/

/-- default separator `(?:\\ |\s|(?<!\\)~)+`: a backslash followed by a blank, a white-space
character, or a tie that does not follow a backslash -/
def spaceBeginsAfter (a : Str) : Str → Bool
  | [] => false
  | c :: r => (c = '\\' && r.head? = some ' ') || isWs c || (c = '~' && a.getLast? ≠ some '\\')

def commaBeginsAfter (_a t : Str) : Bool := t.head? = some ','
def hyphenBeginsAfter (_a t : Str) : Bool := t.head? = some '-'
/-- `' [Aa][Nn][Dd] '`: the next five characters are the separator -/
def andBeginsAfter (_a t : Str) : Bool := isAndSep (t.take 5)

/-! "`m`, preceded by `a` and followed by `r`, is a COMPLETE match": for the default separator (a
greedy `+`) a run of units that begins a match here and cannot be continued; for the others the
separator itself -/

def spaceFullMatch (a m r : Str) : Bool :=
  isSpaceSep m && spaceBeginsAfter a (m ++ r) && !spaceBeginsAfter (a ++ m) r
def commaFullMatch (_a m _r : Str) : Bool := m == [',']
def hyphenFullMatch (_a m _r : Str) : Bool := m == ['-']
def andFullMatch (_a m _r : Str) : Bool := isAndSep m

/-- `SplitsFirst begins full s parts`: `s` is the parts in order with one complete separator match
between consecutive parts; each separator lies at brace level 0 (the text before it has saturating
depth 0, as in `SplitsTop`); and it is the FIRST one: no match begins at a brace-level-0 position
inside the part before it — not even one that would reach beyond the part, the matcher sees all
the text that follows — and none begins anywhere at level 0 in the last part. -/
inductive SplitsFirst (begins : Str → Str → Bool) (full : Str → Str → Str → Bool) : Str → List Str → Prop
  | one (p : Str) : (∀ a b, p = a ++ b → depthSat 0 a = 0 → begins a b = false) →
      SplitsFirst begins full p [p]
  | cons (p m rest : Str) (ps : List Str) : depthSat 0 p = 0 → full p m rest = true →
      (∀ a b, p = a ++ b → b ≠ [] → depthSat 0 a = 0 → begins a (b ++ (m ++ rest)) = false) →
      SplitsFirst begins full rest ps → SplitsFirst begins full (p ++ m ++ rest) (p :: ps)

private theorem SplitsFirst.unique_aux {begins : Str → Str → Bool} {full : Str → Str → Str → Bool}
    (H1 : ∀ a m r, full a m r = true → m ≠ [] ∧ begins a (m ++ r) = true)
    (H2 : ∀ a m r m' r', full a m r = true → full a m' r' = true → m ++ r = m' ++ r' → m = m')
    {s : Str} {L : List Str} (h : SplitsFirst begins full s L) :
    ∀ (s' : Str) (L' : List Str), SplitsFirst begins full s' L' → s = s' → L = L' := by
  induction h with
  | one p hfree =>
    intro s' L' h' heq
    cases h' with
    | one p' _ => rw [heq]
    | cons p' m' rest' ps' hd' hf' _ _ =>
      have := hfree p' (m' ++ rest') (by rw [heq, List.append_assoc]) hd'
      rw [(H1 _ _ _ hf').2] at this
      cases this
  | cons p m rest ps hd hf hfirst _ ih =>
    intro s' L' h' heq
    cases h' with
    | one p' hfree' =>
      have := hfree' p (m ++ rest) (by rw [← heq, List.append_assoc]) hd
      rw [(H1 _ _ _ hf).2] at this
      cases this
    | cons p' m' rest' ps' hd' hf' hfirst' hr' =>
      rw [List.append_assoc, List.append_assoc] at heq
      have hp : p = p' := by
        rcases List.append_eq_append_iff.1 heq with ⟨a', h1, h2⟩ | ⟨c', h1, h2⟩
        · -- p' = p ++ a'
          by_cases ha : a' = []
          · subst ha; simpa using h1.symm
          · have := hfirst' p a' h1 ha hd
            rw [← h2, (H1 _ _ _ hf).2] at this
            cases this
        · -- p = p' ++ c'
          by_cases hc : c' = []
          · subst hc; simpa using h1
          · have := hfirst p' c' h1 hc hd'
            rw [← h2, (H1 _ _ _ hf').2] at this
            cases this
      subst hp
      have hmr : m ++ rest = m' ++ rest' := List.append_cancel_left heq
      have hm : m = m' := H2 _ _ _ _ _ hf hf' hmr
      subst hm
      have hrest : rest = rest' := List.append_cancel_left hmr
      rw [ih rest' ps' hr' hrest]

/-- the FIRST-match decomposition is unique, for every matcher whose complete matches are
non-empty, begin a match, and are determined by the position -/
theorem SplitsFirst.unique {begins : Str → Str → Bool} {full : Str → Str → Str → Bool}
    (H1 : ∀ a m r, full a m r = true → m ≠ [] ∧ begins a (m ++ r) = true)
    (H2 : ∀ a m r m' r', full a m r = true → full a m' r' = true → m ++ r = m' ++ r' → m = m')
    {s : Str} {L L' : List Str} (h : SplitsFirst begins full s L) (h' : SplitsFirst begins full s L') :
    L = L' :=
  SplitsFirst.unique_aux H1 H2 h s L' h' rfl

end Pybtex.Spec
