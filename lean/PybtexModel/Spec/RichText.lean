/-
Reference semantics of rich text (property C08): a rich text *is* a sequence of atoms
(characters, or indivisible symbols), each carrying the stack of markup that encloses it
(outermost first).  Every rich-text operation is specified here as a plain list operation on
that sequence; nothing in this file knows about parts, nesting, merging or normalisation.

A reader has to agree with: `sem` (what a tree of nested constructor calls denotes), and the
list operations `Flat.*` / `Abs.*` (what "acts exactly as the corresponding Python string
operation" means when characters carry markup).
-/
import PybtexModel.Model.RichText

namespace Pybtex

inductive Markup where
  | tag (name : Str)
  | href (url : Str) (external : Bool)
  | prot
deriving DecidableEq, Repr

inductive Atom where
  | ch (c : Char)
  | sym (name : Str)
deriving DecidableEq, Repr

/-- A string of (atom, enclosing markup – outermost first) pairs. -/
abbrev Flat := List (Atom × List Markup)

/-- the markup a multipart text puts around its content (`Text` puts none). -/
def Kind.markup : Kind → List Markup
  | .text => []
  | .tag n => [.tag n]
  | .href u e => [.href u e]
  | .prot => [.prot]

namespace RT

mutual
/-- The denotation of a tree of nested constructor calls inside the markup `ctx`. -/
def sem (ctx : List Markup) : RT → Flat
  | .str s => s.map fun c => (.ch c, ctx)
  | .sym n => [(.sym n, ctx)]
  | .node k ps => semL (ctx ++ k.markup) ps
def semL (ctx : List Markup) : List RT → Flat
  | [] => []
  | p :: ps => sem ctx p ++ semL ctx ps
end

end RT

/-- generic: split a list at every element satisfying `p` (the separators are dropped, empty
pieces are kept): `splitOnP (· = ',') "a,,b" = ["a", "", "b"]`. The result is never empty. -/
def splitOnP {α : Type} (p : α → Bool) : List α → List (List α)
  | [] => [[]]
  | a :: as =>
    if p a then [] :: splitOnP p as
    else match splitOnP p as with
      | [] => [[a]]
      | seg :: segs => (a :: seg) :: segs

namespace Flat

def isProt (st : List Markup) : Bool := st.contains .prot

/-- put the whole string inside the markup `m` (outermost). -/
def push (m : List Markup) (s : Flat) : Flat := s.map fun x => (x.1, m ++ x.2)

/-- `str(text)`: characters; a symbol prints as `<name>`. -/
def toStr (s : Flat) : Str :=
  s.flatMap fun x => match x.1 with
    | .ch c => [c]
    | .sym n => '<' :: n ++ ['>']

/-- pointwise case mapping: characters that are not under `Protected` are mapped, symbols,
protected characters and all markup stacks are left alone. -/
def mapCase (f : Char → Char) (s : Flat) : Flat :=
  s.map fun x => match x.1 with
    | .ch c => if isProt x.2 then x else (.ch (f c), x.2)
    | .sym _ => x

/-- `s[i:j]` with `None` bounds allowed. -/
def slice (s : Flat) (i j : Option Int) : Flat := RT.strSlice s i j

/-- an unprotected occurrence of the (single-character) separator / of a white-space character -/
def isSep (sep : RT.Sep) (x : Atom × List Markup) : Bool :=
  !isProt x.2 && match x.1, sep with
    | .ch c, .ws => isWs c
    | .ch c, .lit d [] => c == d
    | _, _ => false

/-- non-empty and every atom an alphabetic character (a symbol never is). -/
def isAlpha (s : Flat) : Bool :=
  !s.isEmpty && s.all fun x => match x.1 with
    | .ch c => Pybtex.isAlpha c
    | .sym _ => false

/-- the last atom is one of the terminating characters (given as one-character strings). -/
def terminated (terminators : List Str) (s : Flat) : Bool :=
  match s.getLast? with
  | some (.ch c, _) => terminators.contains [c]
  | _ => false

/-- the atoms `w` are exactly the characters `p`, all inside the same markup -/
def spells (p : Str) (w : Flat) : Bool :=
  w.map (·.1) == p.map Atom.ch && match w with
    | [] => true
    | x :: r => r.all fun y => y.2 == x.2

/-- `startswith(p)`: the text begins with the characters of `p` inside one and the same markup
(a prefix that straddles a markup boundary does not count – documented behaviour); for the empty
prefix: the text begins with a character. -/
def startsWith1 (p : Str) (s : Flat) : Bool :=
  match s with
  | [] => false
  | x :: _ => (match x.1 with | .ch _ => true | .sym _ => false) && p.length ≤ s.length && spells p (s.take p.length)

def startsWith (ps : List Str) (s : Flat) : Bool := ps.any fun p => startsWith1 p s

def endsWith1 (p : Str) (s : Flat) : Bool :=
  match s.getLast? with
  | none => false
  | some x => (match x.1 with | .ch _ => true | .sym _ => false) && p.length ≤ s.length &&
      spells p (s.drop (s.length - p.length))

def endsWith (ps : List Str) (s : Flat) : Bool := ps.any fun p => endsWith1 p s

/-- some window of `s` spells the non-empty string `p` inside one and the same markup -/
def hasWindow (p : Str) : Flat → Bool
  | [] => false
  | x :: r => (p.length ≤ (x :: r).length && spells p ((x :: r).take p.length)) || hasWindow p r

end Flat

/-- What an object is besides its characters: the class of the top-level object with its
constructor parameters (`str(…)`, `Symbol`, or `Text`/`Tag`/`HRef`/`Protected`).  It matters for
`==` (a `Tag` is never equal to a `Text`), for `append` (the text goes inside the top-level
markup) and for the class of the results. -/
inductive Top where
  | string
  | symbol
  | multi (k : Kind)
deriving DecidableEq, Repr

/-- Abstract value of a rich-text object: its class and its string of (atom, markup) pairs
(the top-level markup is already part of every stack). -/
structure Abs where
  top : Top
  atoms : Flat
deriving DecidableEq, Repr

namespace RT
def top : RT → Top
  | .str _ => .string
  | .sym _ => .symbol
  | .node k _ => .multi k

def abs (t : RT) : Abs := ⟨top t, sem [] t⟩
end RT

namespace Abs

def topMarkup : Top → List Markup
  | .multi k => k.markup
  | _ => []

/-- `a + b` -/
def add (a b : Abs) : Abs := ⟨.multi .text, a.atoms ++ b.atoms⟩

/-- `a.append(x)`: inside the top-level markup of `a`; `String`/`Symbol`: same as `+`. -/
def append (a x : Abs) : Abs :=
  match a.top with
  | .multi k => ⟨.multi k, a.atoms ++ x.atoms.push k.markup⟩
  | _ => add a x

/-- `sep.join(parts)` -/
def join (sep : Abs) (parts : List Abs) : Abs :=
  ⟨.multi .text, joinWith sep.atoms (parts.map (·.atoms))⟩

/-- `a[i:j]`: the slice of the atoms; the class is kept (the empty slice of a symbol is an empty
string). -/
def slice (a : Abs) (i j : Option Int) : Abs :=
  ⟨bif a.top == .symbol && (Flat.slice a.atoms i j).isEmpty then .string else a.top, Flat.slice a.atoms i j⟩

/-- `a[i]` -/
def index (a : Abs) (i : Int) : Except RT.Err Abs :=
  if -(a.atoms.length : Int) ≤ i ∧ i < (a.atoms.length : Int) then
    let k : Int := if i < 0 then (a.atoms.length : Int) + i else i
    .ok (slice a (some k) (some (k + 1)))
  else .error .indexError

def caseMap (f : Char → Char) (a : Abs) : Abs := ⟨a.top, Flat.mapCase f a.atoms⟩

def capfirst (a : Abs) : Abs :=
  if a.top = .multi .prot then a
  else add (caseMap upperC (slice a none (some 1))) (slice a (some 1) none)

def capitalize (a : Abs) : Abs :=
  if a.top = .multi .prot then a
  else add (caseMap upperC (slice a none (some 1))) (caseMap lowerC (slice a (some 1) none))

def addPeriod (terminators : List Str) (period : Abs) (a : Abs) : Abs :=
  if !a.atoms.isEmpty && !Flat.terminated terminators a.atoms then append a period else a

/-- `a.split(sep)` for white space (`keep = false`: Python's `str.split()`) or a one-character
literal (`keep = true`: Python's `str.split(c)`): the list split of the atoms at the unprotected
separators.  A symbol and a protected text are never split. -/
def split (sep : RT.Sep) (keep : Bool) (a : Abs) : List Abs :=
  if a.top = .symbol ∨ a.top = .multi .prot then [a]
  else
    ((splitOnP (Flat.isSep sep) a.atoms).filter fun seg => !seg.isEmpty || keep).map fun seg => ⟨a.top, seg⟩

def isAlpha (a : Abs) : Bool := Flat.isAlpha a.atoms
/-- `startswith` / `endswith`; the empty `String` starts and ends with the empty string (as `""`
does), an empty multipart text with nothing. -/
def startsWith (ps : List Str) (a : Abs) : Bool :=
  Flat.startsWith ps a.atoms || (a.top == .string && a.atoms.isEmpty && ps.contains [])
def endsWith (ps : List Str) (a : Abs) : Bool :=
  Flat.endsWith ps a.atoms || (a.top == .string && a.atoms.isEmpty && ps.contains [])
def contains (item : Str) (a : Abs) : Bool :=
  if item.isEmpty then a.top != .symbol else Flat.hasWindow item a.atoms

end Abs

/-- The abstract counterpart of `RT.Op`: operands are abstract values. -/
inductive AbsOp where
  | add (x : Abs) | radd (x : Abs) | append (x : Abs) | joinWith (xs : List Abs)
  | slice (i j : Option Int) | index (i : Int)
  | upper | lower | capfirst | capitalize | addPeriod
  | splitPick (sep : RT.Sep) (keep : Bool) (pick : Nat)

namespace Abs

def step (terms : List Str) (a : Abs) : AbsOp → Except RT.Err Abs
  | .add x => .ok (add a x)
  | .radd x => .ok (add x a)
  | .append x => .ok (append a x)
  | .joinWith xs => .ok (join a xs)
  | .slice i j => .ok (slice a i j)
  | .index i => index a i
  | .upper => .ok (caseMap upperC a)
  | .lower => .ok (caseMap lowerC a)
  | .capfirst => .ok (capfirst a)
  | .capitalize => .ok (capitalize a)
  | .addPeriod => .ok (addPeriod terms ⟨.string, [(.ch '.', [])]⟩ a)
  | .splitPick sep keep pick =>
    let ps := split sep keep a
    match ps[pick % ps.length]? with
    | some p => .ok p
    | none => .ok a

def run (terms : List Str) (a : Abs) : List AbsOp → List (Except RT.Err Abs)
  | [] => []
  | op :: ops =>
    match step terms a op with
    | .ok a' => .ok a' :: run terms a' ops
    | .error e => .error e :: run terms a ops

end Abs

namespace RT
/-- abstraction of an operation: abstract the operands. -/
def Op.abs : Op → AbsOp
  | .add x => .add x.abs
  | .radd x => .radd x.abs
  | .append x => .append x.abs
  | .joinWith xs => .joinWith (xs.map RT.abs)
  | .slice i j => .slice i j
  | .index i => .index i
  | .upper => .upper
  | .lower => .lower
  | .capfirst => .capfirst
  | .capitalize => .capitalize
  | .addPeriod => .addPeriod
  | .splitPick sep keep pick => .splitPick sep (keepDefault sep keep) pick
end RT

/-- The tracing backend: `RenderType` = list of (atom, markup stack) pairs. `format_str` gives
every character an empty stack, `format_tag` / `format_href` / `format_protected` push their
markup on every stack, `render_sequence` concatenates, every symbol renders as itself. -/
def traceBackend : RT.Backend Flat where
  formatStr s := s.map fun c => (.ch c, [])
  formatTag n text := Flat.push [.tag n] text
  formatHref u text e := Flat.push [.href u e] text
  formatProtected text := Flat.push [.prot] text
  renderSequence l := l.flatten
  symbols n := some [(.sym n, [])]

end Pybtex
