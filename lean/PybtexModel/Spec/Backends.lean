/-
Vocabulary of the C09 theorems: what a reader has to agree with.  Nothing here knows how the
backends build their output; these are tiny independent *readers* of the four output formats and
of LaTeX field values, plus the token-level view of a rendering.

* `plainPairs` / `plainText`  the characters of a string of (atom, markup) pairs, symbols replaced by text
* `symbolText`                what the three symbols pybtex uses mean (Unicode)
* `plainSymbolSpec` / `plainSymbol`, `mdSymbolSpec`, `latexSymbolSpec`  what each backend has to write for the three symbols
                              (fixed here; the regenerated tables of the backends must agree: `symbolsAgree`, `symbolsAllowed`)
* `Html.read` / `htmlChars`   a strict reader of the HTML fragment the backend may emit: un-escapes
                              `&amp; &lt; &gt; &ndash; &nbsp;`, follows open / close tags with a stack,
                              fails on anything else (stray `<`, `>`, `&`, mismatched or unclosed tag)
* `Md.escapable`              the characters Markdown lets one backslash-escape (J. Gruber's syntax page)
* `Md.escChar`, `Md.unescape` a character as it has to be emitted / the reader that undoes it
* `Tex.depthsFrom` / `Tex.depths`  every non-brace character of a LaTeX string with its brace depth
* `Tex.splitAtClose`, `Tex.lastBraceEnd`, `Tex.unbalancedAt`  where a LaTeX value stops being balanced
* `Tex.optArg`                TeX's reading of the optional argument `[label]` of `\\bibitem`
* `Tex.special`, `Tex.passThrough`, `Tex.readText`  LaTeX's reading of a piece of *text*: the characters it typesets, `none`
                              as soon as something in it acts as markup
* `RTok`, `RTok.flatten`, `RTok.read`  token-level rendering: markup-open | markup-close | text; the reader
                              checks that markup tokens are well nested and returns each atom with the
                              markup that encloses it
* `latexTok`, `markdownTok`   the LaTeX / Markdown backends emitting tokens instead of characters
                              (tied to the string backends by `RTok.flatten`, theorem `C09_latex_scope`)
-/
import PybtexModel.Model.Backends
import PybtexModel.Spec.RichText
import PybtexModel.Spec.TeXString

namespace Pybtex

namespace RT

mutual
/-- every class / parameter tuple in the tree satisfies `p` -/
def allKinds (p : Kind → Bool) : RT → Bool
  | .str _ => true
  | .sym _ => true
  | .node k ps => p k && allKindsL p ps
def allKindsL (p : Kind → Bool) : List RT → Bool
  | [] => true
  | t :: ts => allKinds p t && allKindsL p ts
end

mutual
/-- every `String` part in the tree satisfies `p` -/
def allStrs (p : Str → Bool) : RT → Bool
  | .str s => p s
  | .sym _ => true
  | .node _ ps => allStrsL p ps
def allStrsL (p : Str → Bool) : List RT → Bool
  | [] => true
  | t :: ts => allStrs p t && allStrsL p ts
end

mutual
/-- every `Symbol` in the tree satisfies `p` -/
def allSyms (p : Str → Bool) : RT → Bool
  | .str _ => true
  | .sym n => p n
  | .node _ ps => allSymsL p ps
def allSymsL (p : Str → Bool) : List RT → Bool
  | [] => true
  | t :: ts => allSyms p t && allSymsL p ts
end

end RT

namespace Spec

/-! ### plain text -/

/-- what the three symbols pybtex uses mean, as text: an en dash, a no-break space, a line break -/
def symbolText (n : Str) : Option Str :=
  if n = "ndash".toList then some [Char.ofNat 0x2013]
  else if n = "nbsp".toList then some [Char.ofNat 0xa0]
  else if n = "newblock".toList then some ['\n']
  else none

/-- **plain text**: the plain equivalents of the three symbols -- a hyphen for the en dash, a blank for the no-break space, a
blank between the blocks of an entry.  Fixed here; the table of the plain-text backend has to agree (`C09_tables`). -/
def plainSymbolSpec : List (Str × Str) :=
  [("ndash".toList, ['-']), ("nbsp".toList, [' ']), ("newblock".toList, [' '])]

def plainSymbol (n : Str) : Option Str := plainSymbolSpec.lookup n

/-- **Markdown**: what the backend may write for a symbol -- the entity or the character itself for the en dash (both are
named in the source of the backend), a blank or the entity / character for the no-break space, a line break between blocks.
Read by a Markdown processor, each stands for the symbol's text (`symbolText`) or its plain equivalent. -/
def mdSymbolSpec : List (Str × List Str) :=
  [("ndash".toList, ["&ndash;".toList, [Char.ofNat 0x2013]]),
   ("nbsp".toList, [[' '], "&nbsp;".toList, [Char.ofNat 0xa0]]),
   ("newblock".toList, [['\n']])]

/-- **LaTeX**: the ligature `--`, the tie `~`, and `\newblock` on a new line -/
def latexSymbolSpec : List (Str × Str) :=
  [("ndash".toList, "--".toList), ("nbsp".toList, ['~']), ("newblock".toList, "\n\\newblock ".toList)]

/-- a regenerated symbol table agrees with a fixed one: same symbols, same texts (order is irrelevant for a dict) -/
def symbolsAgree (tbl spec : List (Str × Str)) : Bool :=
  tbl.all (fun p => spec.lookup p.1 == some p.2) && spec.all (fun p => tbl.lookup p.1 == some p.2)

/-- a regenerated symbol table offers, for every symbol of the fixed table and no other, one of the allowed texts -/
def symbolsAllowed (tbl : List (Str × Str)) (spec : List (Str × List Str)) : Bool :=
  tbl.all (fun p => match spec.lookup p.1 with | some l => l.contains p.2 | none => false) &&
    spec.all (fun p => (tbl.lookup p.1).isSome)

/-- the characters of a string of pairs, each with its markup, every symbol replaced by the text
`sym` gives for it; `none` if `sym` does not know a symbol -/
def plainPairs (sym : Str → Option Str) : Flat → Option (List (Char × List Markup))
  | [] => some []
  | (.ch c, st) :: r =>
    match plainPairs sym r with
    | some p => some ((c, st) :: p)
    | none => none
  | (.sym n, st) :: r =>
    match sym n, plainPairs sym r with
    | some w, some p => some (w.map (fun c => (c, st)) ++ p)
    | _, _ => none

/-- the plain text of a string of pairs -/
def plainText (sym : Str → Option Str) (f : Flat) : Option Str :=
  (plainPairs sym f).map fun p => p.map (·.1)

/-! ### HTML -/
namespace Html

inductive Mode where
  | text
  | tagStart
  | openName (acc : Str)
  | attrs (name : Str) (inQuote : Bool)
  | closeName (acc : Str)
  | entity (acc : Str)
deriving DecidableEq, Repr

/-- reader state: mode, open elements (outermost first), characters read so far with their elements -/
structure St where
  mode : Mode
  stack : List Str
  out : List (Char × List Str)
deriving DecidableEq, Repr

/-- the character entities the reader knows -/
def entities : List (Str × Char) :=
  [("amp".toList, '&'), ("lt".toList, '<'), ("gt".toList, '>'),
   ("ndash".toList, Char.ofNat 0x2013), ("nbsp".toList, Char.ofNat 0xa0)]

def nameChar (c : Char) : Bool := isAlnum c

def step (st : St) (c : Char) : Option St :=
  match st.mode with
  | .text =>
    if c = '<' then some { st with mode := .tagStart }
    else if c = '&' then some { st with mode := .entity [] }
    else if c = '>' then none
    else some { st with out := st.out ++ [(c, st.stack)] }
  | .tagStart =>
    if c = '/' then some { st with mode := .closeName [] }
    else if nameChar c then some { st with mode := .openName [c] }
    else none
  | .openName acc =>
    if nameChar c then some { st with mode := .openName (acc ++ [c]) }
    else if c = '>' then some { st with mode := .text, stack := st.stack ++ [acc] }
    else if c = ' ' then some { st with mode := .attrs acc false }
    else none
  | .attrs name q =>
    if q then (if c = '"' then some { st with mode := .attrs name false } else some st)
    else if c = '"' then some { st with mode := .attrs name true }
    else if c = '>' then some { st with mode := .text, stack := st.stack ++ [name] }
    else if c = '<' then none
    else some st
  | .closeName acc =>
    if nameChar c then some { st with mode := .closeName (acc ++ [c]) }
    else if c = '>' then
      (if st.stack.getLast? = some acc then some { st with mode := .text, stack := st.stack.dropLast } else none)
    else none
  | .entity acc =>
    if c = ';' then
      (match entities.lookup acc with
       | some ch => some { st with mode := .text, out := st.out ++ [(ch, st.stack)] }
       | none => none)
    else if isAlnum c then some { st with mode := .entity (acc ++ [c]) }
    else none

def run : St → Str → Option St
  | st, [] => some st
  | st, c :: r =>
    match step st c with
    | none => none
    | some st' => run st' r

/-- the character data of a well-formed fragment, each character with the elements around it
(outermost first); `none` if the fragment is not well formed -/
def read (s : Str) : Option (List (Char × List Str)) :=
  match run ⟨.text, [], []⟩ s with
  | some ⟨.text, [], out⟩ => some out
  | _ => none

/-- the element a piece of markup must appear as -/
def elem : Markup → Str
  | .tag n => n
  | .href _ _ => ['a']
  | .prot => "span".toList

/-- identifier-like tag names, quote-free URLs -/
def kindOK : Kind → Bool
  | .tag n => !n.isEmpty && n.all nameChar
  | .href u _ => !u.contains '"'
  | _ => true

end Html

/-- the character data of an HTML fragment (`none` = not well formed) -/
def htmlChars (s : Str) : Option Str := (Html.read s).map fun p => p.map (·.1)

/-! ### Markdown -/
namespace Md

/-- the characters Markdown lets one backslash-escape (the list of the original syntax description):
backslash, backtick, asterisk, underscore, curly braces, square brackets, parentheses, hash mark,
plus sign, minus sign, dot, exclamation mark -/
def escapable : List Char :=
  ['\\', '`', '*', '_', '{', '}', '[', ']', '(', ')', '#', '+', '-', '.', '!']

/-- what the backend documents besides ("implements the same features as the HTML backend"): the three
characters HTML reserves become entities -/
def entityOf (c : Char) : Option Str :=
  if c = '&' then some "&amp;".toList
  else if c = '<' then some "&lt;".toList
  else if c = '>' then some "&gt;".toList
  else none

/-- one character of the text as it is emitted when `L` is the list of escaped characters -/
def escChar (L : List Char) (c : Char) : Str :=
  if c ∈ L then ['\\', c]
  else match entityOf c with
    | some e => e
    | none => [c]

/-- the reader: a backslash must be followed by a character of `L` and stands for it, the three entities stand
for their characters, a bare character of `L` or a bare `& < >` is an error -/
def unescape (L : List Char) : Str → Option Str
  | [] => some []
  | c :: r =>
    if c = '\\' then
      match r with
      | [] => none
      | d :: r' => if d ∈ L then (unescape L r').map (d :: ·) else none
    else if c = '&' then
      match r with
      | 'a' :: 'm' :: 'p' :: ';' :: r' => (unescape L r').map ('&' :: ·)
      | 'l' :: 't' :: ';' :: r' => (unescape L r').map ('<' :: ·)
      | 'g' :: 't' :: ';' :: r' => (unescape L r').map ('>' :: ·)
      | _ => none
    else if c ∈ L ∨ c = '<' ∨ c = '>' then none
    else (unescape L r).map (c :: ·)

/-- the characters `xml.sax.saxutils.escape` consumes or produces: `& < >` and the letters of `&amp; &lt; &gt;` -/
def reservedChars : List Char := ['&', '<', '>', ';', 'a', 'm', 'p', 'l', 'g', 't']

/-- what the escape list must look like for the sequential replacement passes of the backend to be the
character-wise map `escChar`: no character twice, the backslash (if present) first, and none of the
characters `escape` produces or consumes -/
def tableOK (L : List Char) : Bool :=
  L.Nodup && L.tail.all (· != '\\') && L.all fun c => !(reservedChars.contains c)

end Md

/-! ### LaTeX strings -/
namespace Tex

/-- every character other than a brace with its brace depth, scanning from depth `d` (an unmatched closing
brace at depth 0 is ignored; `depths` excludes such strings) -/
def depthsFrom (d : Nat) : Str → List (Char × Nat)
  | [] => []
  | c :: r =>
    if c = '{' then depthsFrom (d + 1) r
    else if c = '}' then depthsFrom (d - 1) r
    else (c, d) :: depthsFrom d r

/-- the depth sequence of a brace-balanced string -/
def depths (s : Str) : Option (List (Char × Nat)) :=
  if balanced s then some (depthsFrom 0 s) else none

/-- the depth sequence as a string of pairs: depth = nesting of `Protected` -/
def asFlat (l : List (Char × Nat)) : Flat := l.map fun p => (Atom.ch p.1, List.replicate p.2 Markup.prot)

/-- no brace at all -/
def braceFree (w : Str) : Bool := w.all fun c => c != '{' && c != '}'

/-- split at the `(k+1)`-th closing brace that closes nothing (`k` = number of groups opened so far and
still open): the text before it and the text after it -/
def splitAtClose : Nat → Str → Option (Str × Str)
  | _, [] => none
  | k, c :: r =>
    if c = '{' then (splitAtClose (k + 1) r).map fun p => (c :: p.1, p.2)
    else if c = '}' then
      (match k with
       | 0 => some ([], r)
       | k' + 1 => (splitAtClose k' r).map fun p => (c :: p.1, p.2))
    else (splitAtClose k r).map fun p => (c :: p.1, p.2)

/-- length of the shortest prefix that contains every brace of the string (0 if there is none) -/
def lastBraceEnd : Str → Nat
  | [] => 0
  | c :: r => if lastBraceEnd r > 0 then lastBraceEnd r + 1 else if c = '{' ∨ c = '}' then 1 else 0

/-- the number of characters after which a left-to-right reader knows that the string is not brace-balanced:
just behind the first closing brace that closes nothing; if there is none but a group is still open at the
end, just behind the last brace of the string (everything after it has been looked at in vain) -/
def unbalancedAt (s : Str) : Option Nat :=
  match splitAtClose 0 s with
  | some (before, _) => some (before.length + 1)
  | none => if balanced s then none else some (lastBraceEnd s)

/-! #### the optional argument of `\\bibitem` -/

/-- scan an optional argument, started behind the `[`, `d` = braces open: the raw argument and the text behind the `]`
that ends it -- the first `]` outside braces -/
def optArgScan : Nat → Str → Option (Str × Str)
  | _, [] => none
  | d, c :: r =>
    if c = ']' ∧ d = 0 then some ([], r)
    else if c = '{' then (optArgScan (d + 1) r).map fun p => (c :: p.1, p.2)
    else if c = '}' then
      (match d with
       | 0 => none
       | d' + 1 => (optArgScan d' r).map fun p => (c :: p.1, p.2))
    else (optArgScan d r).map fun p => (c :: p.1, p.2)

/-- TeX removes one level of braces from a delimited argument that is a single group as a whole -/
def stripGroup (a : Str) : Str :=
  match a with
  | '{' :: r =>
    (match splitAtClose 0 r with
     | some (m, []) => m
     | _ => a)
  | _ => a

/-- **TeX's reading of `[label]`**, started behind the `[`: the label and the text behind the `]` -/
def optArg (s : Str) : Option (Str × Str) := (optArgScan 0 s).map fun p => (stripGroup p.1, p.2)

/-! #### text that does not act as markup -/

/-- the characters whose category code in LaTeX is neither "letter" nor "other": escape, begin / end group, math shift,
superscript, parameter, comment, alignment tab, subscript, active -/
def special : List Char := ['\\', '{', '}', '$', '^', '#', '%', '&', '_', '~']

/-- the characters of `special` that latexcodec leaves alone (the known limit of the LaTeX backend) -/
def passThrough : List Char := ['\\', '{', '}', '$', '^']

/-- the control symbols that stand for a character: `\#` is `#`, … -/
def escapedSymbols : List Char := ['#', '$', '%', '&', '_', '{', '}']

/-- the control words that stand for a character -/
def textWords : List (Str × Char) := [("textasciitilde".toList, '~')]

/-- a letter for TeX's tokeniser (category code 11) -/
def isLetter (c : Char) : Bool := isAlpha c

/-- **LaTeX's reading of a piece of text**: the characters it typesets, `none` as soon as something in it is not typeset
as the character it is.  An ordinary character stands for itself; a special character on its own is markup; a backslash
starts a control sequence: a control symbol `\#  \$  \%  \&  \_  \{  \}` stands for the character, `\ ` for a blank,
a control word is the maximal run of letters, swallows the blanks behind it, and stands for a character only if it is one
of `textWords`; everything else is markup. -/
def readText (s : Str) : Option Str :=
  match s with
  | [] => some []
  | c :: r =>
    if c = '\\' then
      match r with
      | [] => none
      | x :: r' =>
        if isLetter x then
          match textWords.lookup ((x :: r').takeWhile isLetter) with
          | some ch => (readText (((x :: r').dropWhile isLetter).dropWhile (· == ' '))).map (ch :: ·)
          | none => none
        else if x ∈ escapedSymbols ∨ x = ' ' then (readText r').map (x :: ·)
        else none
    else if c ∈ special then none
    else (readText r).map (c :: ·)
termination_by s.length
decreasing_by
  · have h1 := (List.dropWhile_sublist (p := fun c => c == ' ') (l := (x :: r').dropWhile isLetter)).length_le
    have h2 := (List.dropWhile_sublist (p := isLetter) (l := x :: r')).length_le
    simp only [List.length_cons] at h2 ⊢
    omega
  · simp only [List.length_cons]; omega
  · simp only [List.length_cons]; omega

end Tex

/-! ### token-level rendering -/

/-- A rendering seen as tokens: characters that open a piece of markup, characters that close it, the
characters emitted for a `String` part / a `Symbol`, and characters that belong to neither (the verbatim URL of
`\url{…}`).  `out` is what goes into the output. -/
inductive RTok where
  | opn (m : Markup) (out : Str)
  | cls (m : Markup) (out : Str)
  | str (s : Str) (out : Str)
  | sym (n : Str) (out : Str)
  | lit (out : Str)
deriving DecidableEq, Repr

namespace RTok

def out : RTok → Str
  | .opn _ o => o
  | .cls _ o => o
  | .str _ o => o
  | .sym _ o => o
  | .lit o => o

/-- the same token, emitting nothing -/
def mute : RTok → RTok
  | .opn m _ => .opn m []
  | .cls m _ => .cls m []
  | .str s _ => .str s []
  | .sym n _ => .sym n []
  | .lit _ => .lit []

/-- the emitted string -/
def flatten (l : List RTok) : Str := l.flatMap out

/-- reader state: the markup currently open (outermost first), the atoms read so far -/
abbrev RSt := List Markup × Flat

def step (st : RSt) : RTok → Option RSt
  | .opn m _ => some (st.1 ++ [m], st.2)
  | .cls m _ => if st.1.getLast? = some m then some (st.1.dropLast, st.2) else none
  | .str s _ => some (st.1, st.2 ++ s.map fun c => (Atom.ch c, st.1))
  | .sym n _ => some (st.1, st.2 ++ [(Atom.sym n, st.1)])
  | .lit _ => some st

def run : RSt → List RTok → Option RSt
  | st, [] => some st
  | st, t :: r =>
    match step st t with
    | none => none
    | some st' => run st' r

/-- every atom with the markup that encloses it; `none` unless the markup tokens are well nested (every
closing token closes the innermost open markup, nothing is left open) -/
def read (l : List RTok) : Option Flat :=
  match run ([], []) l with
  | some ([], out) => some out
  | _ => none

end RTok

/-- the opening characters of a LaTeX tag: `\cmd{` for a tag the backend maps to a command, `{` otherwise -/
def latexTagOpen (n : Str) : Str :=
  match Gen.latexTags.lookup n with
  | some (some tag) => ['\\'] ++ tag ++ ['{']
  | _ => ['{']

/-- the LaTeX backend emitting tokens.  A link whose rendered text is the encoded URL becomes `\url{URL}`: the
text tokens are kept (muted) and the verbatim URL is a `lit` token. -/
def latexTok (encode : Str → Str) : RT.Backend (List RTok) where
  formatStr := fun s => [.str s (encode s)]
  formatTag := fun n text =>
    if (RTok.flatten text).isEmpty then []
    else [.opn (.tag n) (latexTagOpen n)] ++ text ++ [.cls (.tag n) ['}']]
  formatHref := fun u text e =>
    if (RTok.flatten text).isEmpty then []
    else if RTok.flatten text = encode u then
      [.opn (.href u e) "\\url{".toList] ++ text.map RTok.mute ++ [.lit u, .cls (.href u e) ['}']]
    else
      [.opn (.href u e) ("\\href".toList ++ (if e then "[pdfnewwindow]".toList else []) ++ ['{'] ++ u ++ "}{".toList)]
        ++ text ++ [.cls (.href u e) ['}']]
  formatProtected := fun text => [.opn .prot ['{']] ++ text ++ [.cls .prot ['}']]
  renderSequence := List.flatten
  symbols := fun n => (Gen.latexSymbols.lookup n).map fun o => [.sym n o]

/-- the opening and closing characters of a Markdown tag -/
def mdTagWrap (n : Str) : Str × Str :=
  match Gen.mdTags.lookup n with
  | none => (['<'] ++ n ++ ['>'], "</".toList ++ n ++ ['>'])
  | some tag => (tag, tag)

/-- the Markdown backend emitting tokens (`Protected` is not marked up: its tokens emit nothing) -/
def markdownTok : RT.Backend (List RTok) where
  formatStr := fun s => [.str s (Backends.Markdown.formatStr s)]
  formatTag := fun n text =>
    if (RTok.flatten text).isEmpty then []
    else [.opn (.tag n) (mdTagWrap n).1] ++ text ++ [.cls (.tag n) (mdTagWrap n).2]
  formatHref := fun u text e =>
    if (RTok.flatten text).isEmpty then []
    else if e then
      [.opn (.href u e) ("<a href=\"".toList ++ u ++ ['"'] ++ " target=\"_blank\"".toList ++ ['>'])]
        ++ text ++ [.cls (.href u e) "</a>".toList]
    else [.opn (.href u e) ['[']] ++ text ++ [.cls (.href u e) ("](".toList ++ u ++ [')'])]
  formatProtected := fun text => [.opn .prot []] ++ text ++ [.cls .prot []]
  renderSequence := List.flatten
  symbols := fun n => (Gen.mdSymbols.lookup n).map fun o => [.sym n o]

end Spec
end Pybtex
