/-
C19 extension — vocabulary of the theorems in `Props/C19x.lean` (what a reader has to agree with).
Nothing here depends on how `wrap` works.
-/
import PybtexModel.Spec.Wrap
import PybtexModel.Spec.WrapEngine

namespace Pybtex.Wrap
open Pybtex Pybtex.Interp

/-- `p` is the position `find_break` has to return for `s`: a white-space position strictly behind the
indent such that every later white space lies beyond the width (the line cannot be ended later and still
fit), and that lies itself within the width unless it is the FIRST white space behind the indent (an
over-long word is ended at the first opportunity). -/
def FirstBreak (width : Int) (indent s : Str) (p : Nat) : Prop :=
  indent.length < p ∧ WsAt s p ∧
  (∀ q, p < q → WsAt s q → width < (q : Int)) ∧
  (∀ q, indent.length < q → q < p → WsAt s q → (p : Int) ≤ width)

/-- **What `iter_lines` has to yield**, stated without the algorithm: `IsWrapping width indent s L` — a text that fits
is one line (none when empty); a longer text without white space behind the indent is one over-long line; otherwise the
first line ends at THE break position `FirstBreak` describes, that white-space character is dropped, and the rest is the
wrapping of indent + remainder. -/
inductive IsWrapping (width : Int) (indent : Str) : Str → List Str → Prop
  | short (s : Str) : ¬ (s.length : Int) > width → IsWrapping width indent s (if s.isEmpty then [] else [s])
  | nobreak (s : Str) : (s.length : Int) > width → (∀ q, WsAt s q → q ≤ indent.length) → IsWrapping width indent s [s]
  | step (s : Str) (p : Nat) (L : List Str) : (s.length : Int) > width → FirstBreak width indent s p →
      IsWrapping width indent (indent ++ s.drop (p + 1)) L → IsWrapping width indent s (s.take p :: L)

/-- `s.split('\n')`: the physical lines of a text. -/
def splitNl : Str → List Str
  | [] => [[]]
  | c :: cs =>
    if c = '\n' then [] :: splitNl cs
    else match splitNl cs with
      | [] => [[c]]
      | l :: ls => (c :: l) :: ls

/-- the pieces written since the last `newline$` of a trace of output calls (`pending` = those written
before the trace starts): what `Interpreter.output_buffer` holds afterwards -/
def tracePending : List Str → List OutEv → List Str
  | pending, [] => pending
  | pending, .write x :: r => tracePending (pending ++ [x]) r
  | _, .newline :: r => tracePending [] r

/-- the physical lines one `newline$` contributes for the buffered text `T` (no line feed in `T`): the
emitted lines of `wrap(T)`; a single empty line when `wrap` yields no line (empty buffer) -/
def groupPhysLines (T : Str) : List Str :=
  match (iterLines 79 [' ', ' '] T).map rstrip with
  | [] => [[]]
  | ls => ls

end Pybtex.Wrap
