/-
Reference reading of XML character data and attribute values (C02, round 2): what ANY conforming XML
parser makes of the references the writer can emit — the predefined entities `&amp; &lt; &gt; &quot;
&apos;` and the three character references `&#10; &#13; &#9;` `quoteattr` uses.  Short, independent
of the writer (`Model/BibWriteText.lean`); compared with expat on every `xmlesc` case of the harness.
-/
import PybtexModel.Model.Basic

namespace Pybtex.BibWrite

/-- the character a reference name stands for (`none`: not one of the eight) -/
def entityChar (name : Str) : Option Char :=
  if name = ['a', 'm', 'p'] then some '&'
  else if name = ['l', 't'] then some '<'
  else if name = ['g', 't'] then some '>'
  else if name = ['q', 'u', 'o', 't'] then some '"'
  else if name = ['a', 'p', 'o', 's'] then some '\''
  else if name = ['#', '1', '0'] then some '\n'
  else if name = ['#', '1', '3'] then some '\r'
  else if name = ['#', '9'] then some '\t'
  else none

/-- character data → the text it denotes; the state is the reference name read so far.  A bare `<`,
an unknown or unterminated reference is not character data (`none`). -/
def xmlUnescapeAux : Option Str → Str → Option Str
  | none, [] => some []
  | some _, [] => none
  | none, c :: r =>
    if c = '&' then xmlUnescapeAux (some []) r
    else if c = '<' then none
    else (xmlUnescapeAux none r).map (c :: ·)
  | some n, c :: r =>
    if c = ';' then
      match entityChar n with
      | none => none
      | some x => (xmlUnescapeAux none r).map (x :: ·)
    else xmlUnescapeAux (some (n ++ [c])) r

def xmlUnescape (s : Str) : Option Str := xmlUnescapeAux none s

/-- a quoted attribute value → the text it denotes: the same quote character at both ends and not in
between, the content read as character data.  (A parser also turns LITERAL tab / newline / return
into blanks — attribute-value normalisation —, which is why `quoteattr` writes them as references;
`xmlAttrNormal` says a value contains none.) -/
def xmlAttrValue : Str → Option Str
  | [] => none
  | q :: r =>
    if q = '"' ∨ q = '\'' then
      match r.getLast? with
      | none => none
      | some q' => if q' = q ∧ r.dropLast.contains q = false then xmlUnescape r.dropLast else none
    else none

/-- no literal tab, newline or carriage return (attribute-value normalisation changes nothing) -/
def xmlAttrNormal (s : Str) : Bool := s.all fun c => c != '\t' && c != '\n' && c != '\r'

end Pybtex.BibWrite
