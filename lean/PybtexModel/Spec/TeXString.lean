/-
Reference definitions for C12 that a reader has to agree with (independent of the code).
-/
import PybtexModel.Model.Basic

namespace Pybtex.Spec

/-- BibTeX `substring$`: positions are 1-based; a negative start counts from the end and the
window extends to the left; the window is clamped to the string; empty for start 0 or
length ≤ 0. -/
def substring (s : Str) (start len : Int) : Str :=
  if len ≤ 0 ∨ start = 0 then []
  else if start > 0 then (s.drop (start.toNat - 1)).take len.toNat
  else
    let k := (-start).toNat            -- the window ends k-1 characters before the end
    if k > s.length then [] else
      let e := s.length - (k - 1)
      let b := e - min len.toNat e
      (s.drop b).take (e - b)

/-- running brace depth, `none` if it would go negative -/
def depthAfter : Nat → Str → Option Nat
  | d, [] => some d
  | d, c :: r =>
    if c = '{' then depthAfter (d + 1) r
    else if c = '}' then (if d = 0 then none else depthAfter (d - 1) r)
    else depthAfter d r

/-- brace-balanced: depth never negative and 0 at the end -/
def balanced (s : Str) : Bool := depthAfter 0 s = some 0

/-- maximal nesting depth of a string (for the nesting guard) -/
def maxDepth : Nat → Str → Nat
  | d, [] => d
  | d, c :: r =>
    if c = '{' then max (d + 1) (maxDepth (d + 1) r)
    else if c = '}' then max d (maxDepth (d - 1) r)
    else max d (maxDepth d r)

/-- Does the string end *inside a special character* (a group opened at brace depth 0 whose
first character is a backslash)?  `sp` = currently inside one, `d` = brace depth (a closing
brace at depth 0 is an ordinary character, so the depth saturates at 0). -/
def endsInSpecial : Bool → Nat → Str → Bool
  | sp, _, [] => sp
  | sp, d, c :: r =>
    if c = '{' then endsInSpecial (sp || (d = 0 && r.head? = some '\\')) (d + 1) r
    else if c = '}' then endsInSpecial (sp && d > 1) (d - 1) r
    else endsInSpecial sp d r

/-- every special character of the string is closed -/
def specialsClosed (s : Str) : Bool := !endsInSpecial false 0 s

/-- brace depth at the end of the string when unmatched closing braces are ignored -/
def depthSat : Nat → Str → Nat
  | d, [] => d
  | d, c :: r =>
    if c = '{' then depthSat (d + 1) r
    else if c = '}' then depthSat (d - 1) r
    else depthSat d r

/-- Text length in BibTeX's sense, independently of the scanner: braces are not counted, a
special character (from its opening brace to its closing brace, or to the end of the string)
counts as one, every other character counts as one.  `sp`, `d` as in `endsInSpecial`. -/
def textLength : Bool → Nat → Str → Nat
  | _, _, [] => 0
  | sp, d, c :: r =>
    if c = '{' then
      (if !sp && (d = 0 && r.head? = some '\\') then 1 else 0)
        + textLength (sp || (d = 0 && r.head? = some '\\')) (d + 1) r
    else if c = '}' then textLength (sp && d > 1) (d - 1) r
    else (if sp then 0 else 1) + textLength sp d r

/-! ### separators of `split_tex_string` -/

/-- a concatenation of the units of `BIBTEX_SPACE_RE`: backslash-space, a white-space
character, or a tie -/
def spaceUnits : Str → Bool
  | [] => true
  | c :: r =>
    if c = '\\' then
      match r with
      | ' ' :: r' => spaceUnits r'
      | _ => false
    else (isWs c || c = '~') && spaceUnits r

/-- a match of the default separator: a non-empty run of white-space units -/
def isSpaceSep (m : Str) : Bool := m ≠ [] && spaceUnits m

/-- a match of the name-list separator `' [Aa][Nn][Dd] '` -/
def isAndSep : Str → Bool
  | [' ', a, n, d, ' '] => (a = 'a' || a = 'A') && (n = 'n' || n = 'N') && (d = 'd' || d = 'D')
  | _ => false

/-- `SplitsTo isSep s parts`: `s` is the parts in order with one separator match between
consecutive parts, i.e. `parts` is obtained from `s` by dropping separators only. -/
inductive SplitsTo (isSep : Str → Bool) : Str → List Str → Prop
  | one (p : Str) : SplitsTo isSep p [p]
  | cons (p m rest : Str) (ps : List Str) : isSep m = true → SplitsTo isSep rest ps →
      SplitsTo isSep (p ++ m ++ rest) (p :: ps)

/-- `SplitsTop isSep s parts`: as `SplitsTo`, and every dropped separator lies at brace level 0 of
`s`, for EVERY string: the level is the running brace depth in which an unmatched closing brace is
an ordinary character (`depthSat`), so a group that is never closed extends to the end of the
string.  (The text before a separator has depth 0; a separator contains no brace.) -/
inductive SplitsTop (isSep : Str → Bool) : Str → List Str → Prop
  | one (p : Str) : SplitsTop isSep p [p]
  | cons (p m rest : Str) (ps : List Str) : isSep m = true → depthSat 0 p = 0 → SplitsTop isSep rest ps →
      SplitsTop isSep (p ++ m ++ rest) (p :: ps)

/-! "`m` is a match of the separator when the text `a` precedes it" (one unit of the default
separator: a white-space character, or a tie that does not follow a backslash; `\ ` contains a
blank, so it needs no case of its own) -/

def spaceMatchAfter (a m : Str) : Bool :=
  match m with
  | [c] => isWs c || (c = '~' && a.getLast? ≠ some '\\')
  | _ => false

def commaMatchAfter (_a m : Str) : Bool := m == [',']
def hyphenMatchAfter (_a m : Str) : Bool := m == ['-']
def andMatchAfter (_a m : Str) : Bool := isAndSep m

/-- the part `p` contains a match of the separator at brace level 0 (level as in `SplitsTop`) -/
def HasTopSep (matchAfter : Str → Str → Bool) (p : Str) : Prop :=
  ∃ a m b, p = a ++ m ++ b ∧ depthSat 0 a = 0 ∧ matchAfter a m = true

/-! ### first letter (reference for `bibtex_first_letter`) -/

/-- a token at which `bibtex_first_letter` stops: not a brace, and either a special character with
something after its backslash or a letter -/
def firstLetterStops (alpha : Char → Bool) (t : Str) : Bool :=
  !(t = ['{'] || t = ['}']) && ((t.head? = some '\\' && t != ['\\']) || (t ≠ [] && t.all alpha))

/-- the first letter or special character of a token sequence (tokens with their brace levels, in
scan order): the special character is answered in braces, a letter as it is; nothing if there is none -/
def firstLetterOf (alpha : Char → Bool) (toks : List (Str × Nat)) : Str :=
  match toks.find? (fun t => firstLetterStops alpha t.1) with
  | none => []
  | some t => if t.1.head? = some '\\' ∧ t.1 ≠ ['\\'] then ['{'] ++ t.1 ++ ['}'] else t.1

/-! ### width (reference for `bibtex_width` / `width$`), without the scanner

"This function takes the literal literally; that is, it assumes each character in the string is to
be printed as is, regardless of whether the character has a special meaning to TeX, except that
special characters (even without their right braces) are handled specially" (bibtex.web, `width$`).
One pass over the characters with a brace counter: outside a special character EVERY character adds
its own width — braces and backslashes included, at any brace level; a `{` at brace level 0 that is
immediately followed by a backslash opens a special character, which extends to the matching `}`
(or to the end of the string).  What the TEXT of a special character adds is pybtex's rule, not
BibTeX's (recorded finding `C03-width-special-char-contents`): every character behind the backslash
and the character after it, braces excepted; its own two braces are counted and 1000 ("two braces")
is taken off again. -/

inductive WidthMode where
  | norm (d : Nat)
  /-- inside a special character: `k` braces open (its own included), `seen` characters of its text passed -/
  | spec (k : Nat) (seen : Nat)

def widthPass (w : Char → Int) : WidthMode → Str → Int
  | .norm _, [] => 0
  | .spec _ _, [] => w '}'
  | .norm d, c :: r =>
    if c = '{' then
      (if d = 0 ∧ r.head? = some '\\' then w '{' - 1000 + widthPass w (.spec 1 0) r
       else w '{' + widthPass w (.norm (d + 1)) r)
    else if c = '}' then w '}' + widthPass w (.norm (d - 1)) r
    else w c + widthPass w (.norm d) r
  | .spec k seen, c :: r =>
    if c = '{' then widthPass w (.spec (k + 1) (seen + 1)) r
    else if c = '}' then
      (if k ≤ 1 then w '}' + widthPass w (.norm 0) r else widthPass w (.spec (k - 1) (seen + 1)) r)
    else (if seen < 2 then 0 else w c) + widthPass w (.spec k (seen + 1)) r

/-- the width of a string, scanner-free -/
def widthOnePass (w : Char → Int) (s : Str) : Int := widthPass w (.norm 0) s

/-- no special character: no `{` at brace level 0 is immediately followed by a backslash -/
def noSpecialFrom : Nat → Str → Bool
  | _, [] => true
  | d, c :: r =>
    if c = '{' then !(d = 0 ∧ r.head? = some '\\') && noSpecialFrom (d + 1) r
    else if c = '}' then noSpecialFrom (d - 1) r
    else noSpecialFrom d r

def noSpecial (s : Str) : Bool := noSpecialFrom 0 s

end Pybtex.Spec
