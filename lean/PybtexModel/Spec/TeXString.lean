/-
Reference definitions for C12 that a reader has to agree with (independent of the code).
-/
import PybtexModel.Model.Basic

namespace Pybtex.Spec

/-- BibTeX `substring$`: positions are 1-based; a negative start counts from the end and the
window extends to the left; the window is clamped to the string; empty for start 0 or
length ≤ 0. -/
def substring (s : Str) (start len : Int) : Str :=
  if len ≤ 0 ∨ start = 0 then []
  else if start > 0 then (s.drop (start.toNat - 1)).take len.toNat
  else
    let k := (-start).toNat            -- the window ends k-1 characters before the end
    if k > s.length then [] else
      let e := s.length - (k - 1)
      let b := e - min len.toNat e
      (s.drop b).take (e - b)

/-- running brace depth, `none` if it would go negative -/
def depthAfter : Nat → Str → Option Nat
  | d, [] => some d
  | d, c :: r =>
    if c = '{' then depthAfter (d + 1) r
    else if c = '}' then (if d = 0 then none else depthAfter (d - 1) r)
    else depthAfter d r

/-- brace-balanced: depth never negative and 0 at the end -/
def balanced (s : Str) : Bool := depthAfter 0 s = some 0

/-- maximal nesting depth of a string (for the nesting guard) -/
def maxDepth : Nat → Str → Nat
  | d, [] => d
  | d, c :: r =>
    if c = '{' then max (d + 1) (maxDepth (d + 1) r)
    else if c = '}' then max d (maxDepth (d - 1) r)
    else max d (maxDepth d r)

end Pybtex.Spec
