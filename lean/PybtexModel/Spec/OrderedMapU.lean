/-
Reference model of C13: an insertion-ordered map keyed by the lower-cased key that remembers
the most recently written spelling.  An entry is `(lowerU key, spelling, value)`.
This file is what a reader has to agree with; it does not mention the two tables of the code.
-/
import PybtexModel.Model.CIMapU

namespace Pybtex.Uni

abbrev OMap (V : Type) := List (Str × Str × V)

namespace OMap
variable {V : Type}

def set : OMap V → Str → V → OMap V
  | [], k, v => [(lowerU k, k, v)]
  | (l, sp, w) :: r, k, v => if l = lowerU k then (l, k, v) :: r else (l, sp, w) :: set r k v

def get : OMap V → Str → Option V
  | [], _ => none
  | (l, _, w) :: r, k => if l = lowerU k then some w else get r k

def has (m : OMap V) (k : Str) : Bool := (get m k).isSome

def del : OMap V → Str → OMap V
  | [], _ => []
  | (l, sp, w) :: r, k => if l = lowerU k then r else (l, sp, w) :: del r k

def keys (m : OMap V) : List Str := m.map (·.2.1)
def items (m : OMap V) : List (Str × V) := m.map fun e => (e.2.1, e.2.2)
def ofPairs (ps : List (Str × V)) : OMap V := ps.foldl (fun m p => set m p.1 p.2) []
def update (m : OMap V) (ps : List (Str × V)) : OMap V := ps.foldl (fun m p => set m p.1 p.2) m
/-- case-lowering: spellings become the lower-cased keys; order and values are kept. -/
def lowered (m : OMap V) : OMap V := m.map fun e => (e.1, e.1, e.2.2)

/-- Well-formedness: lowerU keys are the lower-casing of the spelling and pairwise distinct. -/
def WF (m : OMap V) : Prop := (∀ e ∈ m, e.1 = lowerU e.2.1) ∧ (m.map (·.1)).Nodup

def step (m : OMap V) : Op V → OMap V × Res V
  | .set k v => (set m k v, .unit)
  | .get k => (m, match get m k with | some v => .val v | none => .keyError)
  | .del k => if has m k then (del m k, .unit) else (m, .keyError)
  | .contains k => (m, .bool (has m k))
  | .len => (m, .nat m.length)
  | .iter => (m, .keys (keys m))
  | .items => (m, .items (items m))
  | .getD k dflt => (m, .val ((get m k).getD dflt))
  | .setDefault k dflt =>
    match get m k with
    | some v => (m, .val v)
    | none => (set m k dflt, .val dflt)
  | .pop k =>
    match get m k with
    | some v => (del m k, .val v)
    | none => (m, .keyError)
  | .popD k dflt =>
    match get m k with
    | some v => (del m k, .val v)
    | none => (m, .val dflt)
  | .popItem =>
    match m with
    | [] => (m, .keyError)
    | (_, sp, v) :: r => (r, .pair sp v)
  | .update ps => (update m ps, .unit)
  | .lower => (lowered m, .unit)
  | .clear => ([], .unit)
  | .getDefault k dflt => (m, .val ((get m k).getD dflt))

def run (m : OMap V) : List (Op V) → OMap V × List (Res V)
  | [] => (m, [])
  | op :: ops =>
    let r := step m op
    let rest := run r.1 ops
    (rest.1, r.2 :: rest.2)

end OMap

/-- Reference model of the set: list of `(lowerU key, last spelling)`, order irrelevant. -/
abbrev OSet := List (Str × Str)

namespace OSet
def add : OSet → Str → OSet
  | [], k => [(lowerU k, k)]
  | (l, sp) :: r, k => if l = lowerU k then (l, k) :: r else (l, sp) :: add r k
def discard : OSet → Str → OSet
  | [], _ => []
  | (l, sp) :: r, k => if l = lowerU k then r else (l, sp) :: discard r k
def has (s : OSet) (k : Str) : Bool := s.any fun e => e.1 = lowerU k
def canonical : OSet → Str → Option Str
  | [], _ => none
  | (l, sp) :: r, k => if l = lowerU k then some sp else canonical r k
def lowered (s : OSet) : OSet := s.map fun e => (e.1, e.1)

def step (s : OSet) : SOp → OSet × SRes
  | .add k => (s.add k, .unit)
  | .discard k => (s.discard k, .unit)
  | .remove k => if s.has k then (s.discard k, .unit) else (s, .keyError)
  | .contains k => (s, .bool (s.has k))
  | .canonical k => (s, match s.canonical k with | some x => .str x | none => .keyError)
  | .lower => (s.lowered, .unit)

def run (s : OSet) : List SOp → OSet × List SRes
  | [] => (s, [])
  | op :: ops =>
    let r := step s op
    let rest := run r.1 ops
    (rest.1, r.2 :: rest.2)
end OSet

end Pybtex.Uni
