/-
Reference model of C13: an insertion-ordered map keyed by the normalised (lower-cased) key that
remembers the most recently written spelling.  An entry is `(norm key, spelling, value)`.
This file is what a reader has to agree with; it does not mention the two tables of the code.
`norm` is the key normaliser (`str.lower()`); nothing but `norm (norm k) = norm k` is assumed of it.
-/
import PybtexModel.Model.CIMapU

namespace Pybtex.Uni

abbrev OMap (V : Type) := List (Str × Str × V)

namespace OMap
variable {V : Type} (norm : Str → Str)

def set : OMap V → Str → V → OMap V
  | [], k, v => [(norm k, k, v)]
  | (l, sp, w) :: r, k, v => if l = norm k then (l, k, v) :: r else (l, sp, w) :: set r k v

def get : OMap V → Str → Option V
  | [], _ => none
  | (l, _, w) :: r, k => if l = norm k then some w else get r k

def has (m : OMap V) (k : Str) : Bool := (get norm m k).isSome

def del : OMap V → Str → OMap V
  | [], _ => []
  | (l, sp, w) :: r, k => if l = norm k then r else (l, sp, w) :: del r k

def keys (m : OMap V) : List Str := m.map (·.2.1)
def items (m : OMap V) : List (Str × V) := m.map fun e => (e.2.1, e.2.2)
def values (m : OMap V) : List V := m.map (·.2.2)
/-- construction from pairs = writing the pairs one after the other -/
def ofPairs (ps : List (Str × V)) : OMap V := ps.foldl (fun m p => set norm m p.1 p.2) []
def update (m : OMap V) (ps : List (Str × V)) : OMap V := ps.foldl (fun m p => set norm m p.1 p.2) m
/-- case-lowering: spellings become the lower-cased keys; order and values are kept. -/
def lowered (m : OMap V) : OMap V := m.map fun e => (e.1, e.1, e.2.2)

/-- Well-formedness: keys are the normal form of the spelling and pairwise distinct. -/
def WF (m : OMap V) : Prop := (∀ e ∈ m, e.1 = norm e.2.1) ∧ (m.map (·.1)).Nodup

/-- one operation on the reference map (the non-defaulting mappings) -/
def step (m : OMap V) : Op V → OMap V × Res V
  | .set k v => (set norm m k v, .unit)
  | .get k => (m, match get norm m k with | some v => .val v | none => .keyError)
  | .del k => if has norm m k then (del norm m k, .unit) else (m, .keyError)
  | .contains k => (m, .bool (has norm m k))
  | .len => (m, .nat m.length)
  | .iter => (m, .keys (keys m))
  | .items => (m, .items (items m))
  | .keys => (m, .keys (keys m))
  | .values => (m, .vals (values m))
  | .truth => (m, .bool (m.length != 0))
  | .getD k dflt => (m, .val ((get norm m k).getD dflt))
  | .setDefault k dflt =>
    match get norm m k with
    | some v => (m, .val v)
    | none => (set norm m k dflt, .val dflt)
  | .pop k =>
    match get norm m k with
    | some v => (del norm m k, .val v)
    | none => (m, .keyError)
  | .popD k dflt =>
    match get norm m k with
    | some v => (del norm m k, .val v)
    | none => (m, .val dflt)
  | .popItem =>
    match m with
    | [] => (m, .keyError)
    | (_, sp, v) :: r => (r, .pair sp v)
  | .update ps => (update norm m ps, .unit)
  | .lower => (lowered m, .unit)
  | .clear => ([], .unit)
  | .modify k f =>
    match get norm m k with
    | some v => (set norm m k (f v), .unit)
    | none => (m, .keyError)

def run (m : OMap V) : List (Op V) → OMap V × List (Res V)
  | [] => (m, [])
  | op :: ops =>
    let r := step norm m op
    let rest := run r.1 ops
    (rest.1, r.2 :: rest.2)

/-- The defaulting variant (default value `fac`): the SAME map, except that the look-up `d[k]` of an
absent key yields `fac` — and stores nothing.  (`d[k] = f(d[k])` therefore starts from `fac`.) -/
def stepD (fac : V) (m : OMap V) : Op V → OMap V × Res V
  | .get k => (m, .val ((get norm m k).getD fac))
  | .modify k f => (set norm m k (f ((get norm m k).getD fac)), .unit)
  | op => step norm m op

def runD (fac : V) (m : OMap V) : List (Op V) → OMap V × List (Res V)
  | [] => (m, [])
  | op :: ops =>
    let r := stepD norm fac m op
    let rest := runD fac r.1 ops
    (rest.1, r.2 :: rest.2)

end OMap

/-- Reference model of the set: list of `(norm key, last spelling)`, order irrelevant. -/
abbrev OSet := List (Str × Str)

namespace OSet
variable (norm : Str → Str)

def add : OSet → Str → OSet
  | [], k => [(norm k, k)]
  | (l, sp) :: r, k => if l = norm k then (l, k) :: r else (l, sp) :: add r k
def discard : OSet → Str → OSet
  | [], _ => []
  | (l, sp) :: r, k => if l = norm k then r else (l, sp) :: discard r k
def has (s : OSet) (k : Str) : Bool := s.any fun e => e.1 = norm k
def canonical : OSet → Str → Option Str
  | [], _ => none
  | (l, sp) :: r, k => if l = norm k then some sp else canonical r k
def lowered (s : OSet) : OSet := s.map fun e => (e.1, e.1)
/-- the members as the set iterates them: the normalised keys -/
def members (s : OSet) : List Str := s.map (·.1)

def step (s : OSet) : SOp → OSet × SRes
  | .add k => (add norm s k, .unit)
  | .discard k => (discard norm s k, .unit)
  | .remove k => if has norm s k then (discard norm s k, .unit) else (s, .keyError)
  | .contains k => (s, .bool (has norm s k))
  | .canonical k => (s, match canonical norm s k with | some x => .str x | none => .keyError)
  | .lower => (lowered s, .unit)
  | .len => (s, .nat s.length)
  | .iter => (s, .strs (members s))
  | .truth => (s, .bool (s.length != 0))
  | .pop choice =>
    -- removes exactly the member it returns; which member is not specified
    match s with
    | [] => (s, .keyError)
    | _ :: _ => if (members s).contains choice then (s.filter fun e => e.1 ≠ choice, .str choice) else (s, .badChoice)
  | .clear => ([], .unit)
  | .ior l => (l.foldl (add norm) s, .unit)
  | .isub l => (l.foldl (discard norm) s, .unit)

def run (s : OSet) : List SOp → OSet × List SRes
  | [] => (s, [])
  | op :: ops =>
    let r := step norm s op
    let rest := run r.1 ops
    (rest.1, r.2 :: rest.2)
end OSet

end Pybtex.Uni
