/-
Reference semantics of rich text, second part (property C08): the operations of
`Model/RichTextU.lean` as plain list operations on the string of (atom, markup) pairs.

* `Flat.mapCaseFull`: case mapping as Python's `str.upper/lower` do it – every unprotected
  character is replaced by its image (one OR MORE characters: ß → SS), every character of the
  image carries the markup of the character it came from.
* Matching "as the Python string operation acts on characters" (`*Full`): a prefix / suffix /
  substring / separator is found wherever the characters of the text spell it – whatever markup
  they carry.  Next to it the *part-wise* reading the code documents (`same = true`, and
  `Flat.spells` of `Spec/RichText.lean`): an occurrence counts only if it lies inside one and
  the same markup.  The two differ exactly when an occurrence straddles a markup boundary
  (recorded finding `C08-partwise-matching`).
* `split` for every separator: a literal of any length (leftmost non-overlapping occurrences
  among the unprotected characters), white space with `keep_empty_parts` (maximal runs, i.e.
  `re.split(r'\s+')`), the compiled patterns `([\s\-])` (separators kept as pieces) and `-+`.
* `abbreviate()` as the composition of split / isalpha / index / add_period / join.
-/
import PybtexModel.Spec.RichText
import PybtexModel.Model.RichTextU

namespace Pybtex
namespace Flat

/-- pointwise case mapping where the image of a character is a list of characters -/
def mapCaseFull (g : Char → List Char) (s : Flat) : Flat :=
  s.flatMap fun x => match x.1 with
    | .ch c => if isProt x.2 then [x] else (g c).map fun d => (.ch d, x.2)
    | .sym _ => [x]

/-- non-empty and every atom a letter -/
def isAlphaG (alpha : Char → Bool) (s : Flat) : Bool :=
  !s.isEmpty && s.all fun x => match x.1 with
    | .ch c => alpha c
    | .sym _ => false

/-- every unprotected character has a one-character upper- and lower-case image: the texts on which
case mapping keeps the length (and therefore commutes with slicing) -/
def lenPreserving (cs : CaseSys) (s : Flat) : Bool :=
  s.all fun x => match x.1 with
    | .ch c => isProt x.2 || ((cs.up c).length == 1 && (cs.lo c).length == 1)
    | .sym _ => true

/-- the atoms `w` are exactly the characters `p`, whatever markup they carry -/
def spellsAny (p : Str) (w : Flat) : Bool := w.map (·.1) == p.map Atom.ch

/-- `str.startswith` on the characters -/
def startsWithFull1 (p : Str) (s : Flat) : Bool := p.length ≤ s.length && spellsAny p (s.take p.length)
/-- `str.endswith` on the characters -/
def endsWithFull1 (p : Str) (s : Flat) : Bool :=
  p.length ≤ s.length && spellsAny p (s.drop (s.length - p.length))
/-- `p in str` on the characters (`p` non-empty) -/
def hasWindowFull (p : Str) : Flat → Bool
  | [] => false
  | x :: r => startsWithFull1 p (x :: r) || hasWindowFull p r

/-- all atoms carry the same markup -/
def oneMarkup : Flat → Bool
  | [] => true
  | x :: r => r.all fun y => y.2 == x.2

/-- an occurrence of the literal separator `sep` starts at the head of `s`: its atoms are unprotected
characters spelling `sep`; with `same` they must lie inside one markup (part-wise matching). -/
def sepAt (same : Bool) (sep : Str) (s : Flat) : Bool :=
  sep.length ≤ s.length && spellsAny sep (s.take sep.length) &&
  (s.take sep.length).all (fun x => !isProt x.2) && (!same || oneMarkup (s.take sep.length))

/-- `str.split(sep)` on the pairs: leftmost non-overlapping occurrences; `cur` = the current piece
(reversed), `skip` = atoms of a matched separator still to be passed over. -/
def splitLitGo (same : Bool) (sep : Str) : Flat → Flat → Nat → List Flat
  | [], cur, _ => [cur.reverse]
  | _ :: r, cur, skip + 1 => splitLitGo same sep r cur skip
  | x :: r, cur, 0 =>
    if sepAt same sep (x :: r) then cur.reverse :: splitLitGo same sep r [] (sep.length - 1)
    else splitLitGo same sep r (x :: cur) 0

/-- `re.split(<p>+)` on the pairs: cut at the maximal runs of atoms satisfying `p` (empty pieces at the
ends and – part-wise reading, `same` – between two runs that touch but carry different markup are kept).
`run` = the markup of the run the previous atom belongs to. -/
def splitRunsGo (p : Atom × List Markup → Bool) (same : Bool) : Flat → Flat → Option (List Markup) → List Flat
  | [], cur, _ => [cur.reverse]
  | x :: r, cur, run =>
    if p x then
      match run with
      | some st =>
        if !same || st == x.2 then splitRunsGo p same r cur run
        else cur.reverse :: splitRunsGo p same r [] (some x.2)
      | none => cur.reverse :: splitRunsGo p same r [] (some x.2)
    else splitRunsGo p same r (x :: cur) none

/-- `re.split(<(p)>)` on the pairs: every atom satisfying `p` is a separator and is kept as a piece of its own -/
def splitKeepGo (p : Atom × List Markup → Bool) : Flat → Flat → List Flat
  | [], cur => [cur.reverse]
  | x :: r, cur => if p x then cur.reverse :: [x] :: splitKeepGo p r [] else splitKeepGo p r (x :: cur)

/-- an unprotected hyphen -/
def isDash (x : Atom × List Markup) : Bool :=
  !isProt x.2 && match x.1 with
    | .ch c => c == '-'
    | .sym _ => false

/-- what `textutils.delimiter_re` matches: an unprotected white-space character or hyphen -/
def isDelim (x : Atom × List Markup) : Bool := isSep .ws x || isDash x

end Flat

namespace Abs

def caseMapFull (g : Char → List Char) (a : Abs) : Abs := ⟨a.top, Flat.mapCaseFull g a.atoms⟩

def capfirstG (cs : CaseSys) (a : Abs) : Abs :=
  if a.top = .multi .prot then a
  else add (caseMapFull cs.up (slice a none (some 1))) (slice a (some 1) none)

def capitalizeG (cs : CaseSys) (a : Abs) : Abs :=
  if a.top = .multi .prot then a
  else add (caseMapFull cs.up (slice a none (some 1))) (caseMapFull cs.lo (slice a (some 1) none))

def isAlphaG (alpha : Char → Bool) (a : Abs) : Bool := Flat.isAlphaG alpha a.atoms

/-- the list returned by `split`: a symbol and a protected text are never split; otherwise the pieces
(the empty ones only if kept), each with the class of the receiver -/
def pieces (a : Abs) (keep : Bool) (segs : List Flat) : List Abs :=
  if a.top = .symbol ∨ a.top = .multi .prot then [a]
  else (segs.filter fun seg => !seg.isEmpty || keep).map fun seg => ⟨a.top, seg⟩

/-- `a.split(sep, keep)` for every separator.  `same = true`: the part-wise reading (what the code documents),
`same = false`: the Python string operation on the characters. For a one-character literal and for
`split()` without empty parts the two coincide and are `Abs.split`. -/
def splitG (same : Bool) (sep : RT.Sep) (keep : Bool) (a : Abs) : List Abs :=
  match sep with
  | .lit _ [] => split sep keep a
  | .lit c cs => pieces a keep (Flat.splitLitGo same (c :: cs) a.atoms [] 0)
  | .ws => if keep then pieces a keep (Flat.splitRunsGo (Flat.isSep .ws) same a.atoms [] none) else split .ws false a

/-- `a.split(compiled pattern, keep)` -/
def splitReG (same : Bool) (re : RT.Re) (keep : Bool) (a : Abs) : List Abs :=
  match re with
  | .delim => pieces a keep (Flat.splitKeepGo Flat.isDelim a.atoms [])
  | .dashes => pieces a keep (Flat.splitRunsGo Flat.isDash same a.atoms [] none)

/-- `startswith` as the Python string operation: also a prefix whose characters carry different markup -/
def startsWithFull (ps : List Str) (a : Abs) : Bool :=
  startsWith ps a || ps.any fun p => !p.isEmpty && Flat.startsWithFull1 p a.atoms
def endsWithFull (ps : List Str) (a : Abs) : Bool :=
  endsWith ps a || ps.any fun p => !p.isEmpty && Flat.endsWithFull1 p a.atoms
def containsFull (item : Str) (a : Abs) : Bool :=
  contains item a || (!item.isEmpty && Flat.hasWindowFull item a.atoms)

def periodAbs : Abs := ⟨.string, [(.ch '.', [])]⟩

/-- `abbreviate_word` -/
def abbreviateWord (alpha : Char → Bool) (terms : List Str) (w : Abs) : Except RT.Err Abs :=
  if isAlphaG alpha w then
    match index w 0 with
    | .ok c => .ok (addPeriod terms periodAbs c)
    | .error e => .error e
  else .ok w

/-- `abbreviate()`: split at the delimiters (kept), every alphabetic word becomes its first pair plus a
period (inside the outermost markup of the word), everything glued together again. -/
def abbreviate (alpha : Char → Bool) (terms : List Str) (a : Abs) : Except RT.Err Abs :=
  match (splitReG true .delim true a).mapM (abbreviateWord alpha terms) with
  | .ok ws => .ok (join ⟨.string, []⟩ ws)
  | .error e => .error e

end Abs

/-- The abstract counterpart of `RT.OpG`. -/
inductive AbsOpG where
  | add (x : Abs) | radd (x : Abs) | append (x : Abs) | joinWith (xs : List Abs)
  | slice (i j : Option Int) | index (i : Int)
  | upper | lower | capfirst | capitalize
  | addPeriod (period : Abs)
  | splitPick (sep : RT.Sep) (keep : Bool) (pick : Nat)
  | splitRePick (re : RT.Re) (keep : Bool) (pick : Nat)
  | abbreviate

namespace Abs

def pickOf (ps : List Abs) (pick : Nat) (dflt : Abs) : Abs :=
  match ps[pick % ps.length]? with
  | some p => p
  | none => dflt

def stepG (cs : CaseSys) (terms : List Str) (a : Abs) : AbsOpG → Except RT.Err Abs
  | .add x => .ok (add a x)
  | .radd x => .ok (add x a)
  | .append x => .ok (append a x)
  | .joinWith xs => .ok (join a xs)
  | .slice i j => .ok (slice a i j)
  | .index i => index a i
  | .upper => .ok (caseMapFull cs.up a)
  | .lower => .ok (caseMapFull cs.lo a)
  | .capfirst => .ok (capfirstG cs a)
  | .capitalize => .ok (capitalizeG cs a)
  | .addPeriod period => .ok (addPeriod terms period a)
  | .splitPick sep keep pick => .ok (pickOf (splitG true sep keep a) pick a)
  | .splitRePick re keep pick => .ok (pickOf (splitReG true re keep a) pick a)
  | .abbreviate => abbreviate cs.alpha terms a

def runG (cs : CaseSys) (terms : List Str) (a : Abs) : List AbsOpG → List (Except RT.Err Abs)
  | [] => []
  | op :: ops =>
    match stepG cs terms a op with
    | .ok a' => .ok a' :: runG cs terms a' ops
    | .error e => .error e :: runG cs terms a ops

end Abs

namespace RT
def OpG.abs : OpG → AbsOpG
  | .add x => .add x.abs
  | .radd x => .radd x.abs
  | .append x => .append x.abs
  | .joinWith xs => .joinWith (xs.map RT.abs)
  | .slice i j => .slice i j
  | .index i => .index i
  | .upper => .upper
  | .lower => .lower
  | .capfirst => .capfirst
  | .capitalize => .capitalize
  | .addPeriod period => .addPeriod period.abs
  | .splitPick sep keep pick => .splitPick sep (keepDefault sep keep) pick
  | .splitRePick re keep pick => .splitRePick re (keepRe keep) pick
  | .abbreviate => .abbreviate
end RT

end Pybtex
