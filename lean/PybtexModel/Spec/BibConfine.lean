/-
The SYNTACTIC premise of the confinement-after clause of C10 ("when its own braces and quotes are
balanced"), in the form in which it is true of the reader (`Lemmas/BibBridge.lean`,
`C10_confined_syntactic`): the malformed command contains exactly one `@`, the first bracket behind
it is a `{` and that brace is closed within the command, by brace counting alone.  Nothing here
mentions the scanner or the parser.
-/
import PybtexModel.Model.Basic

namespace Pybtex.Bib

/-- BRACE COUNTING: scanning `r` from depth `n` (`{` = one deeper, `}` = one up), a `}` is met at
depth 0 — the text closes the brace in which it stands, `n` braces deep.  Quotes do not count. -/
def closes : Nat → Str → Bool
  | _, [] => false
  | n, c :: r =>
    if c = '{' then closes (n + 1) r
    else if c = '}' then (match n with
      | 0 => true
      | m + 1 => closes m r)
    else closes n r

/-- the first bracket of the text is a `{` (not a `(`), and the text closes that brace -/
def openCloses : Str → Bool
  | [] => false
  | c :: r => if c = '{' then closes 0 r else if c = '(' then false else openCloses r

/-- the text contains exactly one `@`, the first bracket behind it is a `{`, and that brace is
closed (`Lemmas/BibBridge.lean`: `selfContainedB_iff`, the Boolean form of `SelfContained`) -/
def selfContainedB (bad : Str) : Bool :=
  match bad.dropWhile (fun c => c != '@') with
  | [] => false
  | _ :: r => !r.contains '@' && openCloses r

end Pybtex.Bib
