/-
Vocabulary in which the theorems of C19 are stated (what a reader has to agree with).
Nothing here depends on how `wrap` works.
-/
import PybtexModel.Model.Basic

namespace Pybtex.Wrap

/-- There is a white-space character at position `q` of `s` (positions count from 0). -/
def WsAt (s : Str) (q : Nat) : Prop := ∃ c, s[q]? = some c ∧ isWs c = true

/-- `q` is a legal break position of a line for `wrap(·, width, indent)`: white space strictly
behind the indent and not beyond `width`.

"Behind the indent" is demanded of EVERY line, the first one included, although the first line
carries no indent: the function documents "the lines are not allowed to be shorter than
`len(subsequent_indent) + 1`" and pins it with the doctest `wrap('aa bb c', 3) = 'aa bb\n  c'`
(the blank at column 2 of the first line is not a legal break; `C19_width_nonvacuous`).  This is
the WEAK reading of "a line that has a legal break point" (a break point within the width,
`C19_width`); the strong reading — any white space behind the indent, also beyond the width, where
an over-long word could have been ended — is `C19_width_no_break_point`, and it is the one the
harness oracle evaluates. -/
def LegalBreak (width : Int) (indent : Str) (line : Str) (q : Nat) : Prop :=
  indent.length < q ∧ (q : Int) ≤ width ∧ WsAt line q

/-- Joining the lines back together: the first line, then for every continuation line one
separator character followed by that line without its first `n` characters (the indent).
`unjoin n [l0, l1, l2] [c1, c2] = l0 ++ [c1] ++ drop n l1 ++ [c2] ++ drop n l2`. -/
def unjoin (n : Nat) : List Str → List Char → Str
  | [], _ => []
  | l :: ls, seps => l ++ (List.zipWith (fun c l' => c :: l'.drop n) seps ls).flatten

/-- The non-white-space characters of a string, in order. -/
def nonWs (s : Str) : Str := s.filter (fun c => !isWs c)

/-- `words s = s.split()`: the maximal runs of non-white-space characters.
`acc` is the current word, reversed. -/
def wordsAux : Str → Str → List Str
  | [], acc => if acc.isEmpty then [] else [acc.reverse]
  | c :: cs, acc =>
    if isWs c then (if acc.isEmpty then wordsAux cs [] else acc.reverse :: wordsAux cs [])
    else wordsAux cs (c :: acc)

def words (s : Str) : List Str := wordsAux s []

/-- `t` ends in no white-space character. -/
def NoTrailingWs (t : Str) : Prop := ∀ c, t.getLast? = some c → isWs c = false

/-- `e` is `l` with trailing white space removed – and nothing else. -/
def StrippedOf (l e : Str) : Prop := (∃ t, l = e ++ t ∧ ∀ c ∈ t, isWs c = true) ∧ NoTrailingWs e

end Pybtex.Wrap
