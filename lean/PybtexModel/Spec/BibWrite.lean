/-
C02 reference notions: the domain on which writing a database and reading it back must be the
identity — explicit decidable predicates (`Bool`-valued, so the driver evaluates them too) — and
the closed form of "lower-casing the identifiers".

* `WFPersonCore p` : what every person produced by `Person(string)` satisfies (tokens are
  non-empty, brace-balanced within the nesting limit, without brace-level-0 white space, tie or
  comma; `last ≠ []`; no lower-case (von) token inside `last.dropLast`; `prelast` is empty or ends in
  a von token; `first` has at most one token and `middle = []` when it has none).
* `WFPerson p`     : `WFPersonCore p` and no token ends in a backslash (`a\` followed by the blank
  that joins it to the next token would be read as the separator `\ `).
* `WFDb d`         : the BibTeX domain (values balanced, white-space-normalised, free of `# % & _ ~`;
  entry types / field names NAMEs; keys scannable; no duplicates up to case; persons `WFPerson`,
  free of the five characters and of a brace-level-0 ` and `; roles non-empty).
* `WFDbTree y d`   : the YAML (`y = true`) / BibTeXML domain of pybtex's own conversion logic.
-/
import PybtexModel.Model.BibWrite
import PybtexModel.Spec.Bib
import PybtexModel.Spec.Names

namespace Pybtex.BibWrite
open Pybtex.Bib Pybtex.BibSpec

/-! ### name tokens -/

/-- brace-level-0 characters of a token: no white space, no comma, a tie only right after a
backslash of the same brace-free run.  `d` = brace depth (saturating), `pb` = the previous
character is such a backslash. -/
def lvl0Ok : Nat → Bool → Str → Bool
  | _, _, [] => true
  | d, pb, c :: r =>
    if c = '{' then lvl0Ok (d + 1) false r
    else if c = '}' then lvl0Ok (d - 1) false r
    else if d = 0 then !isWs c && c != ',' && (c != '~' || pb) && lvl0Ok 0 (c == '\\') r
    else lvl0Ok d false r

/-- a name token: non-empty, balanced with nesting ≤ 100, clean at brace level 0 -/
def tokCore (t : Str) : Bool := t ≠ [] && lvl0Ok 0 false t && litScan false 0 t == some 0

def noBsEnd (t : Str) : Bool := t.getLast? != some '\\'

def personTokens (p : Person) : List Str := p.first ++ p.middle ++ p.prelast ++ p.last ++ p.lineage

def WFPersonCore (p : Person) : Bool :=
  (personTokens p).all tokCore &&
  p.last ≠ [] &&
  p.last.dropLast.all (fun t => !Spec.isLow t) &&
  (p.prelast = [] || p.prelast.getLast?.any Spec.isLow) &&
  decide (p.first.length ≤ 1) &&
  (p.first ≠ [] || p.middle = [])

def WFPerson (p : Person) : Bool := WFPersonCore p && (personTokens p).all noBsEnd

/-! ### values -/

/-- the five characters the BibTeX writer re-escapes -/
def isFive (c : Char) : Bool := c = '#' || c = '%' || c = '&' || c = '_' || c = '~'

/-- free of `# % & _ ~` -/
def Safe (s : Str) : Bool := s.all fun c => !isFive c

/-- a field value: balanced with nesting ≤ 100, white-space-normalised, free of the five characters -/
def valueOkW (v : Str) : Bool := litScan false 0 v == some 0 && normalizeWs v == v && Safe v

/-- no ` and ` (any case) at brace level 0 of `x` followed by a blank: `x` is one element of a name
list.  The argument is `x ++ " "`. -/
def andScan : Nat → Str → Bool
  | _, [] => true
  | d, c :: r =>
    if c = '{' then andScan (d + 1) r
    else if c = '}' then andScan (d - 1) r
    else (d != 0 || !isAndAt (c :: r)) && andScan d r

def andFree (x : Str) : Bool := andScan 0 (x ++ [' '])

def personOkW (p : Person) : Bool := WFPerson p && andFree (formatName p)

/-! ### databases: the BibTeX domain -/

/-- roles: person-field names, distinct up to case, each with a non-empty list of good persons whose
written name list is a good value (white-space-normalised also inside braces, free of `# % & _ ~`) -/
def rolesOkW : List Str → List (Str × List Person) → Bool
  | _, [] => true
  | seen, r :: rs =>
    isName r.1 && isPersonField r.1 && !seen.contains (lower r.1) && r.2 ≠ [] && r.2.all personOkW &&
    valueOkW (formatNames r.2) && rolesOkW (lower r.1 :: seen) rs

/-- fields: NAMEs that are not person fields, distinct up to case, good values -/
def fieldsOkW : List Str → List (Str × Str) → Bool
  | _, [] => true
  | seen, f :: fs =>
    isName f.1 && !isPersonField f.1 && !seen.contains (lower f.1) && valueOkW f.2 &&
    fieldsOkW (lower f.1 :: seen) fs

def entryOkW (keys : List Str) (e : Entry) : Bool :=
  isName e.origType && !reserved.contains (lower e.origType) && e.type == lower e.origType &&
  keyOk false e.key && !keys.contains (lower e.key) &&
  rolesOkW [] e.persons && fieldsOkW [] e.fields

def entriesOkW : List Str → List Entry → Bool
  | _, [] => true
  | keys, e :: es => entryOkW keys e && entriesOkW (lower e.key :: keys) es

/-- the claimed BibTeX domain -/
def WFDb (d : BibData) : Bool :=
  entriesOkW [] d.entries && (d.preambleText = [] || valueOkW d.preambleText)

/-! ### databases: the YAML / BibTeXML domain of the conversion logic -/

def rolesOkT : List Str → List (Str × List Person) → Bool
  | _, [] => true
  | seen, r :: rs =>
    isPersonField r.1 && !seen.contains (lower r.1) && r.2 ≠ [] && r.2.all WFPerson &&
    rolesOkT (lower r.1 :: seen) rs

/-- `yaml`: the key `type` (any case) is taken by the entry type -/
def fieldsOkT (yaml : Bool) : List Str → List (Str × Str) → Bool
  | _, [] => true
  | seen, f :: fs =>
    !isPersonField f.1 && !(yaml && lower f.1 == "type".toList) && !seen.contains (lower f.1) &&
    fieldsOkT yaml (lower f.1 :: seen) fs

def entryOkT (yaml : Bool) (keys : List Str) (e : Entry) : Bool :=
  e.type == lower e.origType && !keys.contains (lower e.key) &&
  rolesOkT [] e.persons && fieldsOkT yaml [] e.fields

def entriesOkT (yaml : Bool) : List Str → List Entry → Bool
  | _, [] => true
  | keys, e :: es => entryOkT yaml keys e && entriesOkT yaml (lower e.key :: keys) es

def WFDbTree (yaml : Bool) (d : BibData) : Bool := entriesOkT yaml [] d.entries

/-! ### what a round trip yields, lower-casing in closed form -/

/-- the preamble as every reader stores it: one string (the concatenation), nothing when empty -/
def canonPreamble (d : BibData) : List Str := if d.preambleText = [] then [] else [d.preambleText]

/-- the database a BibTeX / YAML round trip yields -/
def canonDb (d : BibData) : BibData := { entries := d.entries, preamble := canonPreamble d }

/-- the database a round trip through `f` yields: BibTeXML cannot carry the preamble -/
def canonFor (f : Fmt) (d : BibData) : BibData :=
  match f with
  | .bibtexml => { entries := d.entries, preamble := [] }
  | _ => canonDb d

/-- identifiers lower-cased, nothing else touched: keys, entry types, field names, role names -/
def lowerEntrySpec (e : Entry) : Entry :=
  { key := lower e.key, type := lower e.type, origType := e.type,
    fields := e.fields.map fun f => (lower f.1, f.2),
    persons := e.persons.map fun r => (lower r.1, r.2) }

def lowerSpec (d : BibData) : BibData :=
  { entries := d.entries.map lowerEntrySpec, preamble := d.preamble }

/-! ### chains of formats -/

/-- the domain of one format -/
def inDomain (f : Fmt) (d : BibData) : Bool :=
  match f with
  | .bibtex => WFDb d
  | .yaml => WFDbTree true d
  | .bibtexml => WFDbTree false d

/-- what a chain of formats yields: the entries untouched; the preamble as one string, lost when
BibTeXML is on the way -/
def chainDb (fs : List Fmt) (d : BibData) : BibData :=
  { entries := d.entries,
    preamble := if fs = [] then d.preamble else if fs.contains .bibtexml then [] else canonPreamble d }

end Pybtex.BibWrite
