/-
C02 reference notions: the domain on which writing a database and reading it back must be the
identity — explicit decidable predicates (`Bool`-valued, so the driver evaluates them too) — and
the closed form of "lower-casing the identifiers".

* `WFPersonCore p` : what every person produced by `Person(string)` satisfies (tokens are
  non-empty, brace-balanced within the nesting limit, without brace-level-0 white space, tie or
  comma; `last ≠ []`; no lower-case (von) token inside `last.dropLast`; `prelast` is empty or ends in
  a von token; `first` has at most one token and `middle = []` when it has none).
* `WFPerson p`     : `WFPersonCore p` and no token ends in a backslash (`a\` followed by the blank
  that joins it to the next token would be read as the separator `\ `).
* `WFDb d`         : the BibTeX domain (values balanced, white-space-normalised, free of `# % & _ ~`;
  entry types / field names NAMEs; keys scannable; no duplicates up to case; persons `WFPerson`,
  free of the five characters and of a brace-level-0 ` and `; roles non-empty).
* `WFDbTree y d`   : the YAML (`y = true`) / BibTeXML domain of pybtex's own conversion logic.
-/
import PybtexModel.Model.BibWrite
import PybtexModel.Spec.Bib
import PybtexModel.Spec.Names

namespace Pybtex.BibWrite
open Pybtex.Bib Pybtex.BibSpec

/-! ### name tokens -/

/-- brace-level-0 characters of a token: no white space, no comma, a tie only right after a
backslash of the same brace-free run.  `d` = brace depth (saturating), `pb` = the previous
character is such a backslash. -/
def lvl0Ok : Nat → Bool → Str → Bool
  | _, _, [] => true
  | d, pb, c :: r =>
    if c = '{' then lvl0Ok (d + 1) false r
    else if c = '}' then lvl0Ok (d - 1) false r
    else if d = 0 then !isWs c && c != ',' && (c != '~' || pb) && lvl0Ok 0 (c == '\\') r
    else lvl0Ok d false r

/-- a name token: non-empty, balanced with nesting ≤ 100, clean at brace level 0 -/
def tokCore (t : Str) : Bool := t ≠ [] && lvl0Ok 0 false t && litScan false 0 t == some 0

def noBsEnd (t : Str) : Bool := t.getLast? != some '\\'

def personTokens (p : Person) : List Str := p.first ++ p.middle ++ p.prelast ++ p.last ++ p.lineage

def WFPersonCore (p : Person) : Bool :=
  (personTokens p).all tokCore &&
  p.last ≠ [] &&
  p.last.dropLast.all (fun t => !Spec.isLow t) &&
  (p.prelast = [] || p.prelast.getLast?.any Spec.isLow) &&
  decide (p.first.length ≤ 1) &&
  (p.first ≠ [] || p.middle = [])

def WFPerson (p : Person) : Bool := WFPersonCore p && (personTokens p).all noBsEnd

/-! ### values -/

/-- the five characters the BibTeX writer re-escapes -/
def isFive (c : Char) : Bool := c = '#' || c = '%' || c = '&' || c = '_' || c = '~'

/-- free of `# % & _ ~` -/
def Safe (s : Str) : Bool := s.all fun c => !isFive c

/-- a field value: balanced with nesting ≤ 100, white-space-normalised, free of the five characters -/
def valueOkW (v : Str) : Bool := litScan false 0 v == some 0 && normalizeWs v == v && Safe v

/-- no ` and ` (any case) at brace level 0 of `x` followed by a blank: `x` is one element of a name
list.  The argument is `x ++ " "`. -/
def andScan : Nat → Str → Bool
  | _, [] => true
  | d, c :: r =>
    if c = '{' then andScan (d + 1) r
    else if c = '}' then andScan (d - 1) r
    else (d != 0 || !isAndAt (c :: r)) && andScan d r

def andFree (x : Str) : Bool := andScan 0 (x ++ [' '])

def personOkW (p : Person) : Bool := WFPerson p && andFree (formatName p)

/-! ### databases: the BibTeX domain -/

/-- roles: person-field names, distinct up to case, each with a non-empty list of good persons whose
written name list is a good value (white-space-normalised also inside braces, free of `# % & _ ~`) -/
def rolesOkW : List Str → List (Str × List Person) → Bool
  | _, [] => true
  | seen, r :: rs =>
    isName r.1 && isPersonField r.1 && !seen.contains (lower r.1) && r.2 ≠ [] && r.2.all personOkW &&
    valueOkW (formatNames r.2) && rolesOkW (lower r.1 :: seen) rs

/-- fields: NAMEs that are not person fields, distinct up to case, good values -/
def fieldsOkW : List Str → List (Str × Str) → Bool
  | _, [] => true
  | seen, f :: fs =>
    isName f.1 && !isPersonField f.1 && !seen.contains (lower f.1) && valueOkW f.2 &&
    fieldsOkW (lower f.1 :: seen) fs

/-- ASCII only -/
def isAsciiStr (s : Str) : Bool := s.all fun c => decide (c.toNat < 128)

/-- the BibTeX domain has ASCII identifiers only: entry types, field names and roles are NAMEs of
the `.bib` grammar (ASCII by its character table), keys are asked to be ASCII here (the `.bib`
reader compares keys through `Bib.keyFold` = `str.lower()`, which on ASCII keys is this ASCII
lower-casing: `keyFold_ascii` in `Lemmas/BibWriteDb.lean`) -/
def entryOkW (keys : List Str) (e : Entry) : Bool :=
  isName e.origType && !reserved.contains (lower e.origType) && e.type == lower e.origType &&
  keyOk false e.key && isAsciiStr e.key && !keys.contains (lower e.key) &&
  rolesOkW [] e.persons && fieldsOkW [] e.fields

def entriesOkW : List Str → List Entry → Bool
  | _, [] => true
  | keys, e :: es => entryOkW keys e && entriesOkW (lower e.key :: keys) es

/-- the claimed BibTeX domain -/
def WFDb (d : BibData) : Bool :=
  entriesOkW [] d.entries && (d.preambleText = [] || valueOkW d.preambleText)

/-! ### databases: the YAML / BibTeXML domain of the conversion logic

Identifiers may be any strings here (non-ASCII included); they are compared the way the code
compares them, through `str.lower()` = `lowerU` — on `lowerDomain` (no U+0130, whose lower-case form
is two characters, no U+03A3, whose lower-case form depends on its context). -/

def rolesOkT : List Str → List (Str × List Person) → Bool
  | _, [] => true
  | seen, r :: rs =>
    isPersonField r.1 && !seen.contains (lowerU r.1) && r.2 ≠ [] && r.2.all WFPerson &&
    rolesOkT (lowerU r.1 :: seen) rs

/-- `yaml`: the key `type` (any case) is taken by the entry type -/
def fieldsOkT (yaml : Bool) : List Str → List (Str × Str) → Bool
  | _, [] => true
  | seen, f :: fs =>
    !isPersonField f.1 && !(yaml && lower f.1 == "type".toList) && lowerDomain f.1 &&
    !seen.contains (lowerU f.1) && fieldsOkT yaml (lowerU f.1 :: seen) fs

def entryOkT (yaml : Bool) (keys : List Str) (e : Entry) : Bool :=
  e.type == lowerU e.origType && lowerDomain e.origType && lowerDomain e.key &&
  !keys.contains (lowerU e.key) && rolesOkT [] e.persons && fieldsOkT yaml [] e.fields

def entriesOkT (yaml : Bool) : List Str → List Entry → Bool
  | _, [] => true
  | keys, e :: es => entryOkT yaml keys e && entriesOkT yaml (lowerU e.key :: keys) es

def WFDbTree (yaml : Bool) (d : BibData) : Bool := entriesOkT yaml [] d.entries

/-! ### what a round trip yields, lower-casing in closed form -/

/-- the preamble as every reader stores it: one string (the concatenation), nothing when empty -/
def canonPreamble (d : BibData) : List Str := if d.preambleText = [] then [] else [d.preambleText]

/-- the database a BibTeX / YAML round trip yields -/
def canonDb (d : BibData) : BibData := { entries := d.entries, preamble := canonPreamble d }

/-- the database a round trip through `f` yields: BibTeXML cannot carry the preamble -/
def canonFor (f : Fmt) (d : BibData) : BibData :=
  match f with
  | .bibtexml => { entries := d.entries, preamble := [] }
  | _ => canonDb d

/-- identifiers lower-cased (`str.lower()` = `lowerU`), nothing else touched: keys, entry types,
field names, role names -/
def lowerEntrySpec (e : Entry) : Entry :=
  { key := lowerU e.key, type := lowerU e.type, origType := e.type,
    fields := e.fields.map fun f => (lowerU f.1, f.2),
    persons := e.persons.map fun r => (lowerU r.1, r.2) }

def lowerSpec (d : BibData) : BibData :=
  { entries := d.entries.map lowerEntrySpec, preamble := d.preamble }

/-! ### chains of formats -/

/-- the domain of one format -/
def inDomain (f : Fmt) (d : BibData) : Bool :=
  match f with
  | .bibtex => WFDb d
  | .yaml => WFDbTree true d
  | .bibtexml => WFDbTree false d

/-- what a chain of formats yields: the entries untouched; the preamble as one string, lost when
BibTeXML is on the way -/
def chainDb (fs : List Fmt) (d : BibData) : BibData :=
  { entries := d.entries,
    preamble := if fs = [] then d.preamble else if fs.contains .bibtexml then [] else canonPreamble d }

/-! ### the stated quantifier

The property quantifies over every database whose values are brace-balanced TeX strings
(white-space-normalised for BibTeX) and whose persons are expressible in BibTeX name syntax.
`WFDbQ f` is that domain for the format `f`, spelled out: it is the claimed domain `inDomain f`
WITHOUT the four restrictions that the code does not honour and that are recorded as findings —

* a person role other than author / editor (`C02-role-not-author-editor`),
* a role with an empty person list (`C02-empty-role`),
* YAML: a field called `type` (`C02-yaml-type-field`),
* BibTeX: one of `# % & _ ~` in a value, a name or the preamble (`C02-five-characters`)

— so that the check can switch the round-trip oracle on for such databases (`inDomain_Q`,
`Q_minus_findings` in `Props/C02.lean`).  Field names and role names are distinct jointly (all three
formats write both into one namespace). -/

/-- balanced with nesting ≤ 100, white-space-normalised (the five characters allowed) -/
def valueOkQ (v : Str) : Bool := litScan false 0 v == some 0 && normalizeWs v == v

def personOkQ (bib : Bool) (p : Person) : Bool := WFPerson p && (!bib || andFree (formatName p))

/-- `key.lower() == 'type'` -/
def isTypeKey (n : Str) : Bool := lower n == "type".toList

def rolesOkQ (bib : Bool) : List Str → List (Str × List Person) → Bool
  | _, [] => true
  | seen, r :: rs =>
    (!bib || (isName r.1 && (r.2 = [] || valueOkQ (formatNames r.2)))) &&
    lowerDomain r.1 && !isTypeKey r.1 && !seen.contains (lowerU r.1) && r.2.all (personOkQ bib) &&
    rolesOkQ bib (lowerU r.1 :: seen) rs

def fieldsOkQ (bib : Bool) : List Str → List (Str × Str) → Bool
  | _, [] => true
  | seen, f :: fs =>
    (!bib || (isName f.1 && valueOkQ f.2)) && !isPersonField f.1 && lowerDomain f.1 &&
    !seen.contains (lowerU f.1) && fieldsOkQ bib (lowerU f.1 :: seen) fs

def entryOkQ (bib : Bool) (keys : List Str) (e : Entry) : Bool :=
  e.type == lowerU e.origType && lowerDomain e.origType && lowerDomain e.key &&
  (!bib || (isName e.origType && !reserved.contains (lower e.origType) && keyOk false e.key &&
            isAsciiStr e.key)) &&
  !keys.contains (lowerU e.key) && rolesOkQ bib [] e.persons &&
  fieldsOkQ bib (e.persons.map fun r => lowerU r.1) e.fields

def entriesOkQ (bib : Bool) : List Str → List Entry → Bool
  | _, [] => true
  | keys, e :: es => entryOkQ bib keys e && entriesOkQ bib (lowerU e.key :: keys) es

/-- the domain of the stated quantifier for the format `f` -/
def WFDbQ (f : Fmt) (d : BibData) : Bool :=
  match f with
  | .bibtex => entriesOkQ true [] d.entries && (d.preambleText = [] || valueOkQ d.preambleText)
  | _ => entriesOkQ false [] d.entries

/-! the four recorded restrictions, as predicates on a database -/

/-- some role is not a person field of the readers (`Person.valid_roles`) -/
def hasOtherRole (d : BibData) : Bool := d.entries.any fun e => e.persons.any fun r => !isPersonField r.1
/-- some role has no person -/
def hasEmptyRole (d : BibData) : Bool := d.entries.any fun e => e.persons.any fun r => r.2 = []
/-- some field is called `type` (any letter case) -/
def hasTypeField (d : BibData) : Bool := d.entries.any fun e => e.fields.any fun f => isTypeKey f.1
/-- one of `# % & _ ~` occurs in a field value, in a written name list or in the preamble -/
def hasFive (d : BibData) : Bool :=
  (d.entries.any fun e => (e.fields.any fun f => !Safe f.2) || e.persons.any fun r => !Safe (formatNames r.2)) ||
  !Safe d.preambleText

/-! ### `eval(repr(db))` -/

/-- the domain of `eval(repr(entry))`: names distinct up to case, persons whose `str()` is read back
(any role names, empty roles allowed) -/
def reprOk (e : Entry) : Bool :=
  e.type == lowerU e.origType &&
  (e.fields.map fun f => lowerU f.1).Pairwise (· ≠ ·) &&
  (e.persons.map fun r => lowerU r.1).Pairwise (· ≠ ·) &&
  e.persons.all fun r => r.2.all WFPerson

/-- the domain of `eval(repr(db))`: keys distinct up to case, every entry `reprOk` -/
def reprOkDb (d : BibData) : Bool :=
  (d.entries.map fun e => lowerU e.key).Pairwise (· ≠ ·) && d.entries.all reprOk

/-! ### the serialiser hypothesis, per tree; the databases written along a chain

The YAML / XML libraries are parameters of the model (`Serial`).  They are NOT lossless on every
tree (PyYAML fails on U+0085, XML on non-XML names and characters), so the round-trip theorems ask
for losslessness only on the trees pybtex actually hands them. -/

/-- the serialiser is lossless on the ONE tree pybtex hands it when the database `d` is written in
the format `f` (nothing is asked for BibTeX: its text is produced and read by pybtex itself) -/
def LosslessOn (S : Serial) (f : Fmt) (d : BibData) : Prop :=
  match f with
  | .bibtex => True
  | .yaml => S.loadY (S.dumpY (toDictYaml d)) = some (toDictYaml d)
  | .bibtexml => S.loadX (S.dumpX (toTreeXml d)) = some (toTreeXml d)

/-- the (format, database written in it) pairs of the conversions of a chain after the first
format, in closed form: with `preserve_case = False` the database is lower-cased first; what is
read back is `canonFor` of what was written -/
def stagesFrom (preserveCase : Bool) : List Fmt → BibData → List (Fmt × BibData)
  | [], _ => []
  | f :: fs, d =>
    (f, if preserveCase then d else lowerSpec d) ::
      stagesFrom preserveCase fs (canonFor f (if preserveCase then d else lowerSpec d))

/-- the (format, database written in it) pairs of a chain of formats, in closed form -/
def stages (preserveCase : Bool) : List Fmt → BibData → List (Fmt × BibData)
  | [], _ => []
  | f :: fs, d => (f, d) :: stagesFrom preserveCase fs (canonFor f d)

/-- a result of `parse_string` with nothing reported -/
def cleanRead (db : BibData) : ReadRes := { db := db, badNames := [], repeated := [], others := 0 }

/-- the conversions of a chain after the first format (`chainFrom`), keeping everything that is
reported on the way: per step the reader's result and the keys `lower()` reports as repeated -/
def chainFromLog (S : Serial) (preserveCase : Bool) :
    List Fmt → BibData → Except WErr (BibData × List (ReadRes × List Str))
  | [], d => .ok (d, [])
  | f :: fs, d =>
    match writeFmt S f (if preserveCase then d else (dbLower d).1) with
    | .error e => .error e
    | .ok text =>
      match readFmt S f text with
      | .error e => .error e
      | .ok r =>
        match chainFromLog S preserveCase fs r.db with
        | .error e => .error e
        | .ok (d', log) => .ok (d', (r, if preserveCase then [] else (dbLower d).2) :: log)

/-- a chain of formats (`chain`), keeping everything that is reported on the way -/
def chainLog (S : Serial) (preserveCase : Bool) :
    List Fmt → BibData → Except WErr (BibData × List (ReadRes × List Str))
  | [], d => .ok (d, [])
  | f :: fs, d =>
    match writeFmt S f d with
    | .error e => .error e
    | .ok text =>
      match readFmt S f text with
      | .error e => .error e
      | .ok r =>
        match chainFromLog S preserveCase fs r.db with
        | .error e => .error e
        | .ok (d', log) => .ok (d', (r, []) :: log)

end Pybtex.BibWrite
