/-
What an `.aux` file MEANS (property C20) — the part a reader has to agree with.
It does not mention the parser's state, its regular-expression matcher or its context stack.

1. A line is a command line when it starts with `\name{`, `name` one of `citation`, `bibstyle`,
   `bibdata`, `@input`, and a `}` follows on the same line; its argument is the text between
   that `{` and the LAST `}` of the line (`argOf`, `classify`).  Every other line is `other`.
2. Reading a file is the sequence of *events* `(file, line number, line text, item)`, one per
   line, numbered from 1 within its own file; the events of an `\@input` file are spliced in
   right after the `\@input` line (`events`) — "read in place".
3. citations = the keys of all `\citation` events, comma lists expanded, in order, repeats kept;
   style = the argument of the FIRST `\bibstyle` event; data = the comma-separated argument of the
   FIRST `\bibdata` event; everything else contributes nothing.
4. Problems, each located at the event (file, line) that causes it: a `\bibstyle` (`\bibdata`)
   event when an earlier event already was one; a cited key whose most recent earlier citation
   (same key up to case) was spelled differently (`reportsOf`, `reports`).
5. No `\bibdata` at all is fatal; otherwise no `\bibstyle` at all is fatal (`fatal`).
-/
import PybtexModel.Model.AuxFile

namespace Pybtex.Aux.Spec

/-! ### comma lists -/

def addToFirst (c : Char) : List Str → List Str
  | [] => [[c]]
  | h :: t => (c :: h) :: t

/-- `s` cut at every comma: `"a,,b"` ↦ `["a", "", "b"]`, `""` ↦ `[""]`.
Characterised in `Lemmas/AuxFile.lean` (`splitComma_spec`): the only list of comma-free parts
that joins back to `s` with commas. -/
def splitComma : Str → List Str
  | [] => [[]]
  | c :: r => if c = ',' then [] :: splitComma r else addToFirst c (splitComma r)

/-! ### lines -/

inductive Item where
  | citation (keys : List Str)
  | bibstyle (style : Str)
  | bibdata (names : List Str)
  | input (file : Path)
  | other
deriving Repr, DecidableEq

/-- the text of `s` before its last `}` -/
def uptoLastClose (s : Str) : Option Str :=
  if s.contains '}' then some ((s.reverse.dropWhile (· ≠ '}')).drop 1).reverse else none

/-- the argument of a line that starts with `\name{` -/
def argOf (name : Str) (line : Str) : Option Str :=
  let pre := '\\' :: name ++ ['{']
  if line.take pre.length = pre then uptoLastClose ((line.drop pre.length).takeWhile (· ≠ '\n'))
  else none

def classify (line : Str) : Item :=
  match argOf "citation".toList line, argOf "bibdata".toList line,
        argOf "bibstyle".toList line, argOf "@input".toList line with
  | some a, _, _, _ => .citation (splitComma a)
  | none, some a, _, _ => .bibdata (splitComma a)
  | none, none, some a, _ => .bibstyle a
  | none, none, none, some a => .input a
  | none, none, none, none => .other

/-! ### events: the document with `\@input` files read in place -/

structure Event where
  file : Path
  lineno : Nat
  /-- the line without surrounding white space (what an error message shows) -/
  text : Str
  item : Item
deriving Repr, DecidableEq

/-- events of the lines `ls` of file `p`, the first of which has number `n`;
`sub q` = the events of the included file `q` -/
def lineEvents (sub : Path → List Event) (p : Path) : List Str → Nat → List Event
  | [], _ => []
  | l :: ls, n =>
    ⟨p, n, strip l, classify l⟩ ::
      ((match classify l with | .input q => sub q | _ => []) ++ lineEvents sub p ls (n + 1))

/-- events of file `p`, unfolding nested `\@input`s at most `d` files deep
(`closedDepth fs d p` says that this is the whole, finite, unfolding) -/
def events (fs : FS) : Nat → Path → List Event
  | 0, _ => []
  | d + 1, p =>
    match fs p with
    | none => []
    | some lines => lineEvents (events fs d) p lines 1

/-! ### denotation -/

def citations (evs : List Event) : List Str :=
  evs.flatMap fun e => match e.item with | .citation keys => keys | _ => []

def style (evs : List Event) : Option Str :=
  evs.findSome? fun e => match e.item with | .bibstyle s => some s | _ => none

def data (evs : List Event) : Option (List Str) :=
  evs.findSome? fun e => match e.item with | .bibdata names => some names | _ => none

/-- the spelling under which `key` was cited most recently in `before`, if it was cited; "the same
key up to case" is equality of the Unicode lower-case forms (`lowerPy` = Python's `str.lower()` on
whole strings, `Model/UniCase.lean`) -/
def lastSpelling (before : List Str) (key : Str) : Option Str :=
  before.reverse.find? fun k => lowerPy k = lowerPy key

/-- the keys of one `\citation` line that disagree with the last spelling of the same key -/
def mismatches (before : List Str) : List Str → List (Str × Str)
  | [] => []
  | k :: ks =>
    (match lastSpelling before k with
     | some k' => if k ≠ k' then [(k, k')] else []
     | none => []) ++ mismatches (before ++ [k]) ks

def located (kind : Kind) (e : Event) : Report := ⟨kind, e.file, some e.lineno, some e.text⟩

/-- the problems event `e` causes, given the events before it -/
def reportsOf (before : List Event) (e : Event) : List Report :=
  match e.item with
  | .bibstyle _ => if (style before).isSome then [located .anotherBibstyle e] else []
  | .bibdata _ => if (data before).isSome then [located .anotherBibdata e] else []
  | .citation keys =>
    (mismatches (citations before) keys).map fun kk => located (.caseMismatch kk.1 kk.2) e
  | _ => []

def reportsAfter (before : List Event) : List Event → List Report
  | [] => []
  | e :: rest => reportsOf before e ++ reportsAfter (before ++ [e]) rest

def reports (evs : List Event) : List Report := reportsAfter [] evs

/-- the fatal problem of a top-level document, if any -/
def fatal (evs : List Event) : Option Kind :=
  if (data evs).isNone then some .noBibdata
  else if (style evs).isNone then some .noBibstyle
  else none

/-! ### "every other line is ignored" -/

/-- the file system with every line that is not one of the four commands deleted from every file -/
def commandLinesOnly (fs : FS) : FS :=
  fun p => (fs p).map (List.filter fun l => decide (classify l ≠ .other))

/-- a report without its line number and line text (deleting lines renumbers the others) -/
def unlocated (r : Report) : Report := { r with lineno := none, line := none }

/-- the outcome of a parse up to the line numbers in the reports -/
def outcome : Except Abort St → Except Abort St
  | .ok st => .ok { st with reports := st.reports.map unlocated }
  | .error a => .error { a with reports := a.reports.map unlocated }


/-! ### an `\@input` file that cannot be opened

Reading stops at the first `\@input` line (in reading order, at any depth) whose file cannot be
opened: what has been read until then — that `\@input` line included — is `(eventsUntilMissing …).1`,
the name that could not be opened is `(eventsUntilMissing …).2` (`none`: every file was there). -/

def lineEventsM (sub : Path → List Event × Option Path) (p : Path) :
    List Str → Nat → List Event × Option Path
  | [], _ => ([], none)
  | l :: ls, n =>
    let e : Event := ⟨p, n, strip l, classify l⟩
    match classify l with
    | .input q =>
      match sub q with
      | (evs, some m) => (e :: evs, some m)
      | (evs, none) => (e :: (evs ++ (lineEventsM sub p ls (n + 1)).1), (lineEventsM sub p ls (n + 1)).2)
    | _ => (e :: (lineEventsM sub p ls (n + 1)).1, (lineEventsM sub p ls (n + 1)).2)

def eventsUntilMissing (fs : FS) : Nat → Path → List Event × Option Path
  | 0, _ => ([], none)
  | d + 1, p =>
    match fs p with
    | none => ([], some p)
    | some lines => lineEventsM (eventsUntilMissing fs d) p lines 1

end Pybtex.Aux.Spec
