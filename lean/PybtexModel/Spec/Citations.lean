/-
Reference specification of C05 (which entries go into a bibliography, in which order) and C14
(what a field lookup yields).  This file is what a reader has to agree with.  It does not
mention the containers, counters or loops of the code: a database is a plain list of entries in
database order, keys are compared up to ASCII case.
-/
import PybtexModel.Model.Basic

namespace Pybtex.Spec

/-- two keys (or field names) are the same up to case -/
def keq (a b : Str) : Bool := lower a == lower b

structure SEntry where
  key : Str
  /-- name ↦ value, in order -/
  fields : List (Str × Str)
  /-- role ↦ names (already formatted), in order -/
  persons : List (Str × List Str)
deriving DecidableEq, Repr

/-- database: entries in database order; well-formed when no two keys are equal up to case -/
abbrev SDb := List SEntry

def xrefName : Str := ['c', 'r', 'o', 's', 's', 'r', 'e', 'f']
def star : Str := ['*']
def andSep : Str := [' ', 'a', 'n', 'd', ' ']

def SEntry.field (e : SEntry) (name : Str) : Option Str :=
  (e.fields.find? fun p => keq p.1 name).map (·.2)
def SEntry.role (e : SEntry) (name : Str) : Option (List Str) :=
  (e.persons.find? fun p => keq p.1 name).map (·.2)
def SEntry.crossref (e : SEntry) : Option Str := e.field xrefName

def find (db : SDb) (k : Str) : Option SEntry := db.find? fun e => keq e.key k
def keys (db : SDb) : List Str := db.map (·.key)
def WF (db : SDb) : Prop := ((keys db).map lower).Nodup

/-- Reading a whole file: the first entry with a given key (up to case) wins. -/
def readAll : List SEntry → SDb
  | [] => []
  | e :: r => e :: (readAll r).filter fun q => !keq q.key e.key

/-- the keys reported as repeated: every entry whose key (up to case) occurred before -/
def repeatedFrom (seen : List Str) : List SEntry → List Str
  | [] => []
  | e :: r => if seen.any (keq e.key) then e.key :: repeatedFrom seen r else repeatedFrom (e.key :: seen) r

/-! ### C05 — which keys, in which order -/

/-- `*` replaced in place by all database keys in database order -/
def substStar (db : SDb) (citations : List Str) : List Str :=
  citations.flatMap fun c => if c = star then keys db else [c]

/-- order-preserving de-duplication up to case: the first spelling wins -/
def dedupFrom (seen : List Str) : List Str → List Str
  | [] => []
  | k :: r => if seen.any (keq k) then dedupFrom seen r else k :: dedupFrom (k :: seen) r

def dedupCI (l : List Str) : List Str := dedupFrom [] l

/-- the cited entries -/
def expanded (db : SDb) (citations : List Str) : List Str := dedupCI (substStar db citations)

/-- the entry `c` cross-references, when both exist -/
def parentOf (db : SDb) (c : Str) : Option SEntry :=
  (find db c).bind fun e => e.crossref.bind fun x => find db x

/-- does citation `c` reference (the entry whose key is) `p`? -/
def refers (db : SDb) (p c : Str) : Bool :=
  match parentOf db c with
  | some q => keq q.key p
  | none => false

/-- number of citations in `l` that reference `p` -/
def refCount (db : SDb) (p : Str) (l : List Str) : Nat := (l.filter (refers db p)).length

def cited (l : List Str) (k : Str) : Bool := l.any (keq k)

/-- Walk along the cited list `l` (`pre` = the part already passed): the citation at each
position contributes its parent exactly when the parent is not itself cited and this reference
is the one with which the number of references so far reaches the threshold. -/
def extraFrom (db : SDb) (minCrossrefs : Int) (l : List Str) : (pre suf : List Str) → List Str
  | _, [] => []
  | pre, c :: suf =>
    (match parentOf db c with
     | some p =>
       if !cited l p.key && ((refCount db p.key (pre ++ [c]) : Int) == max minCrossrefs 1) then [p.key] else []
     | none => []) ++ extraFrom db minCrossrefs l (pre ++ [c]) suf

/-- the uncited parents, in the order their reference count reaches `min_crossrefs` -/
def extra (db : SDb) (l : List Str) (minCrossrefs : Int) : List Str := extraFrom db minCrossrefs l [] l

/-- the resolved list -/
def resolved (db : SDb) (citations : List Str) (minCrossrefs : Int) : List Str :=
  expanded db citations ++ extra db (expanded db citations) minCrossrefs

/-- dangling cross-references of the entries named by `l`: (key as listed, target) in list order.
Applied to the resolved list — the entries that go into the bibliography, cited or appended —
it gives what has to be reported. -/
def dangling (db : SDb) (l : List Str) : List (Str × Str) :=
  l.filterMap fun c =>
    (find db c).bind fun e => e.crossref.bind fun x =>
      match find db x with
      | none => some (c, x)
      | some _ => none

/-- resolved keys that have no database entry, in order -/
def missing (db : SDb) (l : List Str) : List Str := l.filter fun c => (find db c).isNone
def present (db : SDb) (l : List Str) : List Str := l.filter fun c => (find db c).isSome

/-- The ordering proviso under which reading filtered by the citations is the same as reading
everything (BibTeX documents the same restriction).  `file` is the raw file, duplicates included.
For every citation `c`, with `e` the entry that counts for `c` (the first one of the file with
that key): if `e` cross-references `x`, then `x` is itself cited, or no entry of the file has
key `x`, or an entry with key `x` occurs in the file after the entry that counts for one of
the cited keys and cross-references `x`.  A wildcard citation makes every entry wanted. -/
def laterOccurs (l : List Str) (x : Str) : (seen : List Str) → (file : List SEntry) → Bool
  | _, [] => false
  | seen, e :: r =>
    (!seen.any (keq e.key) && cited l e.key
      && (match e.crossref with | some y => keq y x | none => false)
      && r.any (fun q => keq q.key x))
    || laterOccurs l x (e.key :: seen) r

def proviso (file : List SEntry) (citations : List Str) : Bool :=
  citations.contains star ||
  citations.all fun c =>
    match file.find? fun e => keq e.key c with
    | none => true
    | some e =>
      match e.crossref with
      | none => true
      | some x => cited citations x || !(file.any fun q => keq q.key x) || laterOccurs citations x [] file

/-- `parentOk file l x r`: an entry with key `x` occurs in `r`, and if the first such entry
cross-references `y` itself, then `y` is `x`, or `y` is cited, or no entry of the file has key
`y`, or one comes after that entry. -/
def parentOk (file : List SEntry) (l : List Str) (x : Str) : List SEntry → Bool
  | [] => false
  | q :: r =>
    if keq q.key x then
      match q.crossref with
      | none => true
      | some y => keq y x || cited l y || !(file.any fun q' => keq q'.key y) || r.any fun q' => keq q'.key y
    else parentOk file l x r

/-- `firstLater file l x seen rest`: the FIRST entry with key `x` comes after the entry that
counts for one of the cited keys `l` and cross-references `x` (`seen` = keys passed so far), and
that first entry satisfies `parentOk`. -/
def firstLater (file : List SEntry) (l : List Str) (x : Str) : (seen : List Str) → (rest : List SEntry) → Bool
  | _, [] => false
  | seen, e :: r =>
    !keq e.key x &&
    ((!seen.any (keq e.key) && cited l e.key
        && (match e.crossref with | some y => keq y x | none => false)
        && parentOk file l x r)
      || firstLater file l x (e.key :: seen) r)

/-- The proviso under which the filtered reading also stores THE SAME ENTRIES (not only the same
keys) as the unfiltered one and reports the same dangling references for the appended parents:
`proviso`, and for every citation `c` whose effective entry cross-references `x`: `x` is cited,
or no entry has key `x`, or the FIRST entry with key `x` comes after the effective entry of a
cited child that references `x` (an earlier duplicate would be the one the unfiltered reading
keeps) and the target of its own cross-reference, if any, is `x`, cited, absent from the file or
found after it (`parentOk`). -/
def provisoStrong (file : List SEntry) (citations : List Str) : Bool :=
  proviso file citations &&
  (citations.contains star ||
   citations.all fun c =>
    match file.find? fun e => keq e.key c with
    | none => true
    | some e =>
      match e.crossref with
      | none => true
      | some x => cited citations x || !(file.any fun q => keq q.key x) || firstLater file citations x [] file)

/-! ### C14 — what a field lookup yields -/

/-- the value an entry defines itself: a field, else a role as `" and "`-joined names -/
def SEntry.own (e : SEntry) (name : Str) : Option Str :=
  match e.field name with
  | some v => some v
  | none => (e.role name).map (joinWith andSep)

def parent (db : SDb) (e : SEntry) : Option SEntry := e.crossref.bind (find db)

/-- the first `n` entries of the cross-reference chain starting at `e`
(the chain ends at an entry without `crossref` or with a dangling one; on a cycle it goes round) -/
def walk (db : SDb) : Nat → SEntry → List SEntry
  | 0, _ => []
  | n + 1, e => e :: (match parent db e with | some p => walk db n p | none => [])

/-- Value of the first entry along the chain that defines `name`.  `db.length + 1` entries are
enough to see every entry of the chain (`C14_terminates` shows any larger bound gives the same). -/
def lookup (db : SDb) (e : SEntry) (name : Str) : Option Str :=
  (walk db (db.length + 1) e).findSome? (·.own name)

end Pybtex.Spec
